package main

import (
	"bytes"
	"encoding/hex"
	"errors"
	"fmt"
	"math/bits"
	"strings"
	"sync"
	"time"

	"github.com/skycoin/skycoin/src/cipher"
	"github.com/skycoin/skycoin/src/cipher/crypto"
	"github.com/skycoin/skycoin/src/wallet"
	"github.com/skycoin/skycoin/src/wallet/bip44wallet"
	"github.com/skycoin/skycoin/src/wallet/collection"
	"github.com/skycoin/skycoin/src/wallet/deterministic"
	"github.com/skycoin/skycoin/src/wallet/xpubwallet"

	"verif/engine"
	"verif/model/walletref"
)

// C17 — wallet address derivation is deterministic and batch independent.
//
// Explicit-state search (engine.BFS, replay states) over the REAL wallet objects.  The state key is the
// COMPLETE in-memory state of the wallet (overlay export VerifState: every metadata key, every entry with
// secret, bip44 account private key and chain xpubs), so two histories are merged only if nothing that can
// influence later behaviour differs — Reload / Lock→Unlock / Clone being self-loops is therefore a checked fact.
//
// Operations: Choose(kind, seed, passphrase) at the root; Generate(k ∈ 1..3) on the external / change chain;
// ScanAddresses(k ∈ 1..3, every activity bitmask — for bip44 every pair of masks for the two chains) with a fake
// TransactionsFinder; Serialize→Load; Lock→Unlock (sha256-xor); Clone; bip44 only: Lock→Generate(k) while locked→Unlock.
// Bounds: ≤ 6 (quick) / 8 (thorough) addresses per chain; 3 seeds × 2 passphrases.
func init() { register("C17", "model_checking", c17) }

type c17Config struct {
	Kind string // deterministic | bip44 | xpub | collection
	Seed int
	Pass int
}

func (c c17Config) String() string {
	if c.Kind == "bip44" || c.Kind == "xpub" {
		return fmt.Sprintf("%s(seed%d,pass%d)", c.Kind, c.Seed, c.Pass)
	}
	return fmt.Sprintf("%s(seed%d)", c.Kind, c.Seed)
}

type c17Op struct {
	Op    string // choose gen scan reload lockunlock clone lockedgen
	Cfg   c17Config
	Chain int
	K     int
	Mask  [2]int
}

func (o c17Op) String() string {
	ch := []string{"ext", "chg"}[o.Chain]
	switch o.Op {
	case "choose":
		return "New:" + o.Cfg.String()
	case "gen":
		return fmt.Sprintf("Generate(%s,%d)", ch, o.K)
	case "lockedgen":
		return fmt.Sprintf("Lock;Generate(%s,%d);Unlock", ch, o.K)
	case "scan":
		return fmt.Sprintf("Scan(%d,ext=%0*b,chg=%0*b)", o.K, o.K, o.Mask[0], o.K, o.Mask[1])
	case "scanfail":
		return fmt.Sprintf("Scan(%d,finder fails at its call no. %d)", o.K, o.Mask[0])
	}
	return o.Op
}

type c17RefEntry struct {
	Addr, Pub, Sec string // base58, hex, hex ("" when the chain holds no secrets)
}

// c17Ref is the single-batch derivation of one configuration: by a fresh wallet itself and by the reference model.
type c17Ref struct {
	self      [2][]c17RefEntry
	model     [2][]walletref.DetEntry
	addrIndex map[string][2]int
	keys      []cipher.SecKey // collection
	xpub      string          // xpub wallets
	seed      string
	pass      string
}

type c17Live struct {
	cfg *c17Config
	w   wallet.Wallet
	ref *c17Ref
	bad string // harness-visible breakage of a step (becomes part of the key so that it is not merged away)
}

var c17Pw = []byte("c17 lock password")

type c17Space struct {
	r       *engine.Run
	maxLen  [2]int
	mu      sync.Mutex
	refs    map[c17Config]*c17Ref
	configs []c17Config
	checks  *engine.Counter
}

// fullPairs: is the full product maskExternal × maskChange enumerated for this bip44 configuration?
func (sp *c17Space) fullPairs(c c17Config) bool {
	return sp.r.Thorough() || (c.Seed == 0 && c.Pass == 1) || (c.Seed == 1 && c.Pass == 0)
}

func selfEntries(es wallet.Entries) []c17RefEntry {
	out := make([]c17RefEntry, len(es))
	for i, e := range es {
		out[i] = c17RefEntry{Addr: e.Address.String(), Pub: e.Public.Hex()}
		if !e.Secret.Null() {
			out[i].Sec = e.Secret.Hex()
		}
	}
	return out
}

func (sp *c17Space) newWallet(cfg c17Config, ref *c17Ref) wallet.Wallet {
	switch cfg.Kind {
	case "deterministic":
		return newDet(detSeeds[cfg.Seed], 0, crypto.CryptoTypeSha256Xor)
	case "bip44":
		return newBip44(bipMnemonic(cfg.Seed), bipPassphrases[cfg.Pass], crypto.CryptoTypeSha256Xor)
	case "xpub":
		return newXPub(ref.xpub)
	case "collection":
		return newCollection(nil, crypto.CryptoTypeSha256Xor)
	}
	panic("kind")
}

// reference builds (once per configuration) the single-batch derivations.
func (sp *c17Space) reference(cfg c17Config) *c17Ref {
	sp.mu.Lock()
	if r, ok := sp.refs[cfg]; ok {
		sp.mu.Unlock()
		return r
	}
	sp.mu.Unlock()
	ref := &c17Ref{addrIndex: map[string][2]int{}}
	L := [2]int{sp.maxLen[0], sp.maxLen[1]}
	var err error
	switch cfg.Kind {
	case "deterministic":
		ref.seed = detSeeds[cfg.Seed]
		w := newDet(ref.seed, L[0], crypto.CryptoTypeSha256Xor) // ONE batch from a fresh wallet
		es, _ := w.GetEntries()
		ref.self[0] = selfEntries(es)
		ref.model[0] = walletref.DetChain(ref.seed, L[0])
	case "bip44", "xpub":
		ref.seed, ref.pass = bipMnemonic(cfg.Seed), bipPassphrases[cfg.Pass]
		w := newBip44(ref.seed, ref.pass, crypto.CryptoTypeSha256Xor) // the constructor derives 1 external + 1 change
		_, err = w.GenerateAddresses(wallet.OptionGenerateN(uint64(L[0] - 1)))
		must(err)
		nchg := L[1]
		if cfg.Kind == "xpub" {
			nchg = 1
		}
		if nchg > 1 {
			_, err = w.GenerateAddresses(wallet.OptionGenerateN(uint64(nchg-1)), wallet.OptionChange())
			must(err)
		}
		ee, _ := w.GetEntries(wallet.OptionExternal())
		ce, _ := w.GetEntries(wallet.OptionChange())
		ref.self[0], ref.self[1] = selfEntries(ee), selfEntries(ce)
		ref.xpub = w.VerifChainXPub(0, 0)
		for ch := 0; ch < 2; ch++ {
			ref.model[ch], err = walletref.Bip44Chain(ref.seed, ref.pass, 8000, 0, uint32(ch), L[ch], cfg.Kind == "xpub")
			must(err)
		}
		if cfg.Kind == "xpub" {
			// watch-only reference: what a fresh xpub wallet derives in ONE batch; secrets must be absent
			xw := newXPub(ref.xpub)
			_, err = xw.GenerateAddresses(wallet.OptionGenerateN(uint64(L[0])))
			must(err)
			xe, _ := xw.GetEntries()
			bipExt := ref.self[0]
			ref.self[0] = selfEntries(xe)
			ref.self[1] = nil
			ref.model[1] = nil
			// "watch-only wallets derive the same addresses as the corresponding seed wallet"
			for i := range bipExt {
				if i >= len(ref.self[0]) || bipExt[i].Addr != ref.self[0][i].Addr || bipExt[i].Pub != ref.self[0][i].Pub {
					sp.r.Failf("xpubwallet.GenerateAddresses:differs-from-bip44-external-chain", cfg, "%s: xpub wallet address %d = %v, bip44 external chain has %v", cfg, i, ref.self[0][i], bipExt[i])
				}
			}
			sp.checks.AddN("xpub-vs-bip44-external-addresses", len(bipExt))
		}
	case "collection":
		ref.keys = collectionKeys(10+cfg.Seed, L[0])
		w := newCollection(ref.keys, crypto.CryptoTypeSha256Xor)
		es, _ := w.GetEntries()
		ref.self[0] = selfEntries(es)
		for _, k := range ref.keys {
			pub := walletref.PubFromSec(k[:])
			ref.model[0] = append(ref.model[0], walletref.DetEntry{Address: walletref.Address(pub), Pub: pub, Sec: append([]byte{}, k[:]...)})
		}
	}
	for ch := 0; ch < 2; ch++ {
		if len(ref.self[ch]) != len(ref.model[ch]) {
			sp.r.Broken("reference lengths differ for %s chain %d: %d vs %d", cfg, ch, len(ref.self[ch]), len(ref.model[ch]))
		}
		for i, e := range ref.self[ch] {
			ref.addrIndex[e.Addr] = [2]int{ch, i}
		}
	}
	sp.mu.Lock()
	if r, ok := sp.refs[cfg]; ok {
		ref = r
	} else {
		sp.refs[cfg] = ref
	}
	sp.mu.Unlock()
	return ref
}

func chainEntries(w wallet.Wallet, kind string, chain int) wallet.Entries {
	var es wallet.Entries
	var err error
	if kind == "bip44" {
		if chain == 0 {
			es, err = w.GetEntries(wallet.OptionExternal())
		} else {
			es, err = w.GetEntries(wallet.OptionChange())
		}
	} else if chain == 0 {
		es, err = w.GetEntries()
	}
	must(err)
	return es
}

func (l *c17Live) lens() [2]int {
	return [2]int{len(chainEntries(l.w, l.cfg.Kind, 0)), len(chainEntries(l.w, l.cfg.Kind, 1))}
}

// fakeTF answers activity by position relative to the chain length before the scan and checks what it is asked.
type fakeTF struct {
	ref   *c17Ref
	lens  [2]int
	k     int
	mask  [2]int
	calls int
	bad   string
}

func (f *fakeTF) AddressesActivity(addrs []cipher.Addresser) ([]bool, error) {
	f.calls++
	out := make([]bool, len(addrs))
	if len(addrs) != f.k {
		f.bad = fmt.Sprintf("TransactionsFinder asked about %d addresses, scan of %d requested", len(addrs), f.k)
	}
	for i, a := range addrs {
		ci, ok := f.ref.addrIndex[a.String()]
		if !ok {
			f.bad = fmt.Sprintf("TransactionsFinder asked about %s which is not an address of this wallet's chains", a)
			continue
		}
		rel := ci[1] - f.lens[ci[0]]
		if rel != i {
			f.bad = fmt.Sprintf("TransactionsFinder position %d holds chain %d address #%d, expected #%d", i, ci[0], ci[1], f.lens[ci[0]]+i)
			continue
		}
		out[i] = f.mask[ci[0]]>>uint(rel)&1 == 1
	}
	return out, nil
}

// failingTF answers "no activity" until its failAt-th call, which fails.
type failingTF struct{ failAt, calls int }

func (f *failingTF) AddressesActivity(addrs []cipher.Addresser) ([]bool, error) {
	f.calls++
	if f.calls >= f.failAt {
		return nil, errors.New("verif: the node cannot look up transactions right now")
	}
	return make([]bool, len(addrs)), nil
}

func addrStrings(a []cipher.Addresser) []string {
	out := make([]string, len(a))
	for i, x := range a {
		out[i] = x.String()
	}
	return out
}

func refAddrs(es []c17RefEntry, from, to int) []string {
	var out []string
	for i := from; i < to && i < len(es); i++ {
		out = append(out, es[i].Addr)
	}
	return out
}

func load(kind string, data []byte) (wallet.Wallet, error) {
	switch kind {
	case "deterministic":
		return deterministic.Loader{}.Load(data)
	case "bip44":
		return bip44wallet.Loader{}.Load(data)
	case "xpub":
		return xpubwallet.Loader{}.Load(data)
	}
	return collection.Loader{}.Load(data)
}

func (sp *c17Space) ops(l *c17Live) []c17Op {
	if l.cfg == nil {
		var ops []c17Op
		for _, c := range sp.configs {
			ops = append(ops, c17Op{Op: "choose", Cfg: c})
		}
		return ops
	}
	if l.bad != "" {
		return nil
	}
	kind := l.cfg.Kind
	n := l.lens()
	var ops []c17Op
	chains := 1
	if kind == "bip44" {
		chains = 2
	}
	for ch := 0; ch < chains; ch++ {
		for k := 1; k <= 3; k++ {
			if n[ch]+k <= sp.maxLen[ch] {
				ops = append(ops, c17Op{Op: "gen", Chain: ch, K: k})
				if kind == "bip44" {
					ops = append(ops, c17Op{Op: "lockedgen", Chain: ch, K: k})
				}
			}
		}
	}
	for k := 1; k <= 3; k++ {
		if n[0]+k > sp.maxLen[0] || (chains == 2 && n[1]+k > sp.maxLen[1]) {
			continue
		}
		if kind == "collection" && k > 1 {
			continue // ScanAddresses is refused whatever the arguments
		}
		for m0 := 0; m0 < 1<<uint(k); m0++ {
			if chains == 1 {
				ops = append(ops, c17Op{Op: "scan", K: k, Mask: [2]int{m0, 0}})
				continue
			}
			for m1 := 0; m1 < 1<<uint(k); m1++ {
				if !sp.fullPairs(*l.cfg) && m1 != 0 && m1 != m0 && m1 != 1<<uint(k)-1 && m0 != 0 && m0 != 1<<uint(k)-1 {
					continue // quick tier, secondary seeds: every mask on each chain, but not every PAIR of masks
				}
				ops = append(ops, c17Op{Op: "scan", K: k, Mask: [2]int{m0, m1}})
			}
		}
	}
	// a scan that is abandoned half-way: the transactions finder reports an error (at its first call; for the two-chain wallet
	// also at its second call, after the external chain was scanned)
	if kind != "collection" && n[0]+2 <= sp.maxLen[0] && (chains == 1 || n[1]+2 <= sp.maxLen[1]) {
		ops = append(ops, c17Op{Op: "scanfail", K: 2, Mask: [2]int{1, 0}})
		if chains == 2 {
			ops = append(ops, c17Op{Op: "scanfail", K: 2, Mask: [2]int{2, 0}})
		}
	}
	ops = append(ops, c17Op{Op: "reload"}, c17Op{Op: "clone"})
	if kind != "xpub" {
		ops = append(ops, c17Op{Op: "lockunlock"})
	}
	return ops
}

func genOpts(kind string, chain, k int, ref *c17Ref, have int) []wallet.Option {
	if kind == "collection" {
		return []wallet.Option{wallet.OptionCollectionPrivateKeys(ref.keys[have : have+k])}
	}
	opts := []wallet.Option{wallet.OptionGenerateN(uint64(k))}
	if chain == 1 {
		opts = append(opts, wallet.OptionChange())
	}
	return opts
}

func (sp *c17Space) apply(l *c17Live, op c17Op, check bool) string {
	r := sp.r
	hist := func() interface{} {
		return map[string]interface{}{"config": fmt.Sprint(l.cfg), "state_lengths": l.lens(), "op": op.String()}
	}
	failf := func(sig, format string, a ...interface{}) {
		if check {
			r.Failf(sig, hist(), "%s at lengths %v, %s: %s", l.cfg, l.lens(), op, fmt.Sprintf(format, a...))
		}
	}
	if op.Op == "choose" {
		cfg := op.Cfg
		l.cfg = &cfg
		l.ref = sp.reference(cfg)
		l.w = sp.newWallet(cfg, l.ref)
		return "new:" + cfg.Kind
	}
	kind := l.cfg.Kind
	n := l.lens()
	pan, msg := engine.Catch(func() {
		switch op.Op {
		case "gen":
			addrs, err := l.w.GenerateAddresses(genOpts(kind, op.Chain, op.K, l.ref, n[op.Chain])...)
			if err != nil {
				failf("GenerateAddresses:unexpected-error:"+kind, "%v", err)
				l.bad = "gen error"
				return
			}
			if want := refAddrs(l.ref.self[op.Chain], n[op.Chain], n[op.Chain]+op.K); fmt.Sprint(addrStrings(addrs)) != fmt.Sprint(want) {
				failf("GenerateAddresses:returned-addresses-differ-from-single-batch:"+kind, "returned %v, single-batch derivation has %v", addrStrings(addrs), want)
			}
		case "lockedgen":
			if err := l.w.Lock(c17Pw); err != nil {
				failf("Lock:unexpected-error:"+kind, "%v", err)
				l.bad = "lock error"
				return
			}
			addrs, err := l.w.GenerateAddresses(genOpts(kind, op.Chain, op.K, l.ref, n[op.Chain])...)
			if err != nil {
				failf("GenerateAddresses:locked-bip44-refused", "%v", err)
				l.bad = "locked gen error"
				return
			}
			if want := refAddrs(l.ref.self[op.Chain], n[op.Chain], n[op.Chain]+op.K); fmt.Sprint(addrStrings(addrs)) != fmt.Sprint(want) {
				failf("GenerateAddresses:returned-addresses-differ-from-single-batch:bip44-locked", "returned %v, single-batch derivation has %v", addrStrings(addrs), want)
			}
			uw, err := l.w.Unlock(c17Pw)
			if err != nil {
				failf("Unlock:unexpected-error:"+kind, "%v", err)
				l.bad = "unlock error"
				return
			}
			l.w = uw
		case "scan":
			tf := &fakeTF{ref: l.ref, lens: n, k: op.K, mask: op.Mask}
			before := verifState(l.w)
			addrs, err := l.w.ScanAddresses(uint64(op.K), tf)
			if kind == "collection" {
				if err == nil {
					failf("ScanAddresses:collection-wallet-accepts", "no error")
				}
				if verifState(l.w) != before {
					failf("ScanAddresses:collection-wallet-changed", "state changed by a refused scan")
				}
				return
			}
			if err != nil {
				failf("ScanAddresses:unexpected-error:"+kind, "%v", err)
				l.bad = "scan error"
				return
			}
			if tf.bad != "" {
				failf("ScanAddresses:asks-about-wrong-addresses:"+kind, "%s", tf.bad)
			}
			wantCalls := 1
			if kind == "bip44" {
				wantCalls = 2
			}
			if tf.calls != wantCalls {
				failf("ScanAddresses:transactions-finder-call-count:"+kind, "TransactionsFinder called %d times, expected %d", tf.calls, wantCalls)
			}
			keep := bits.Len(uint(op.Mask[0]))
			if want := refAddrs(l.ref.self[0], n[0], n[0]+keep); fmt.Sprint(addrStrings(addrs)) != fmt.Sprint(want) {
				failf("ScanAddresses:returned-addresses-wrong:"+kind, "returned %v, expected the external addresses up to the last active one %v", addrStrings(addrs), want)
			}
			after := l.lens()
			want := [2]int{n[0] + keep, n[1]}
			if kind == "bip44" {
				want[1] = n[1] + bits.Len(uint(op.Mask[1]))
			}
			if after != want {
				failf("ScanAddresses:wrong-number-of-addresses-kept:"+kind, "chain lengths after the scan %v, expected %v (keep up to the highest active address)", after, want)
			}
		case "scanfail":
			tf := &failingTF{failAt: op.Mask[0]}
			before := verifState(l.w)
			_, err := l.w.ScanAddresses(uint64(op.K), tf)
			if err == nil {
				failf("ScanAddresses:finder-error-swallowed:"+kind, "the transactions finder failed at its call no. %d, ScanAddresses reports success", op.Mask[0])
			}
			if after := verifState(l.w); after != before {
				failf("ScanAddresses:failed-scan-changes-the-wallet:"+kind, "the scan failed (%v) but the wallet changed: before %s, after %s", err, before, after)
				l.bad = "failed scan changed the wallet"
			}
		case "reload":
			data, err := l.w.Serialize()
			if err != nil {
				failf("Serialize:unexpected-error:"+kind, "%v", err)
				l.bad = "serialize error"
				return
			}
			w2, err := load(kind, data)
			if err != nil {
				failf("Load:rejects-own-serialisation:"+kind, "%v", err)
				l.bad = "load error"
				return
			}
			data2, err := w2.Serialize()
			if err != nil || !bytes.Equal(data, data2) {
				failf("Load:serialisation-not-stable:"+kind, "Serialize(Load(Serialize(w))) differs (err %v)", err)
			}
			l.w = w2
		case "clone":
			l.w = l.w.Clone()
		case "lockunlock":
			if err := l.w.Lock(c17Pw); err != nil {
				failf("Lock:unexpected-error:"+kind, "%v", err)
				l.bad = "lock error"
				return
			}
			uw, err := l.w.Unlock(c17Pw)
			if err != nil {
				failf("Unlock:unexpected-error:"+kind, "%v", err)
				l.bad = "unlock error"
				return
			}
			l.w = uw
		}
	})
	if pan {
		failf("wallet:panic:"+op.Op+":"+kind, "panic %s", msg)
		l.bad = "panic"
	}
	switch op.Op {
	case "scan":
		if kind == "collection" {
			return "scan-refused(collection)"
		}
		if op.Mask == [2]int{0, 0} {
			return "scan-keeps-nothing"
		}
		if bits.Len(uint(op.Mask[0])) < op.K || (kind == "bip44" && bits.Len(uint(op.Mask[1])) < op.K) {
			return "scan-truncates"
		}
		return "scan-keeps-all"
	}
	return op.Op
}

// invariant is the state oracle.
func (sp *c17Space) invariant(l *c17Live, hist []c17Op) {
	if l.cfg == nil {
		return
	}
	r := sp.r
	kind := l.cfg.Kind
	cs := map[string]interface{}{"config": l.cfg.String(), "history": fmt.Sprint(hist)}
	failf := func(sig, format string, a ...interface{}) {
		r.Failf(sig, cs, "%s after %v: %s", l.cfg, hist, fmt.Sprintf(format, a...))
	}
	if l.bad != "" {
		return // already reported by the step oracle
	}
	if l.w.IsEncrypted() {
		failf("state:wallet-left-encrypted", "wallet is encrypted at rest")
	}
	total := 0
	for ch := 0; ch < 2; ch++ {
		es := chainEntries(l.w, kind, ch)
		total += len(es)
		if len(es) > len(l.ref.self[ch]) {
			failf("state:more-addresses-than-the-bound:"+kind, "chain %d has %d entries, bound %d", ch, len(es), len(l.ref.self[ch]))
			continue
		}
		for i, e := range es {
			self, mod := l.ref.self[ch][i], l.ref.model[ch][i]
			addr := e.Address.String()
			if addr != self.Addr {
				failf("state:address-differs-from-single-batch-derivation:"+kind, "chain %d entry %d is %s, a fresh wallet deriving %d addresses in one batch has %s", ch, i, addr, len(l.ref.self[ch]), self.Addr)
			}
			if addr != mod.Address {
				failf("state:address-differs-from-reference-derivation:"+kind, "chain %d entry %d is %s, the independent derivation gives %s", ch, i, addr, mod.Address)
			}
			if e.Public.Hex() != hex.EncodeToString(mod.Pub) {
				failf("state:public-key-differs-from-reference-derivation:"+kind, "chain %d entry %d public key %s, reference %x", ch, i, e.Public.Hex(), mod.Pub)
			}
			if cipher.AddressFromPubKey(e.Public).String() != addr || walletref.Address(e.Public[:]) != addr || e.Address.Verify(e.Public) != nil {
				failf("state:entry-address-is-not-address-of-its-public-key:"+kind, "chain %d entry %d: address %s, public key %s", ch, i, addr, e.Public.Hex())
			}
			if kind == "xpub" {
				if !e.Secret.Null() {
					failf("state:watch-only-wallet-holds-a-secret", "entry %d", i)
				}
			} else {
				if e.Secret.Null() {
					failf("state:entry-without-secret-key:"+kind, "chain %d entry %d has no secret key in an unlocked wallet", ch, i)
				} else {
					pk, err := cipher.PubKeyFromSecKey(e.Secret)
					if err != nil || pk != e.Public || !bytes.Equal(walletref.PubFromSec(e.Secret[:]), e.Public[:]) {
						failf("state:public-key-is-not-the-one-of-the-secret-key:"+kind, "chain %d entry %d: pub %s, secret gives %s (%v)", ch, i, e.Public.Hex(), pk.Hex(), err)
					}
					if e.Secret.Hex() != hex.EncodeToString(mod.Sec) {
						failf("state:secret-key-differs-from-reference-derivation:"+kind, "chain %d entry %d", ch, i)
					}
				}
			}
			if (kind == "bip44" || kind == "xpub") && int(e.ChildNumber) != i {
				failf("state:child-number-wrong:"+kind, "chain %d entry %d has child number %d", ch, i, e.ChildNumber)
			}
			if kind == "bip44" && int(e.Change) != ch {
				failf("state:change-flag-wrong", "chain %d entry %d has change=%d", ch, i, e.Change)
			}
			sp.checks.Add("entry-checked")
		}
		if kind == "deterministic" && ch == 0 {
			want := l.ref.seed
			if len(es) > 0 {
				want = hex.EncodeToString(l.ref.model[0][len(es)-1].LastSeed)
			}
			if l.w.LastSeed() != want {
				failf("state:lastSeed-differs-from-reference-chain", "lastSeed %q after %d addresses, reference %q", l.w.LastSeed(), len(es), want)
			}
			if l.w.Seed() != l.ref.seed {
				failf("state:seed-changed", "seed %q", l.w.Seed())
			}
		}
	}
	if n, err := l.w.EntriesLen(); err != nil || n != total {
		failf("state:EntriesLen-disagrees:"+kind, "EntriesLen %d (%v), entries %d", n, err, total)
	}
	if kind == "bip44" {
		bw := l.w.(*bip44wallet.Wallet)
		if bw.VerifChainXPub(0, 0) != l.ref.xpub {
			failf("state:bip44-external-chain-key-changed", "xpub %s", bw.VerifChainXPub(0, 0))
		}
		if bw.Seed() != l.ref.seed || bw.SeedPassphrase() != l.ref.pass {
			failf("state:seed-or-passphrase-changed", "seed %q passphrase %q", bw.Seed(), bw.SeedPassphrase())
		}
	}
}

func c17(r *engine.Run) {
	sp := &c17Space{r: r, refs: map[c17Config]*c17Ref{}, checks: engine.NewCounter()}
	sp.maxLen = [2]int{r.Pick(6, 8), r.Pick(6, 8)}
	for s := 0; s < 3; s++ {
		sp.configs = append(sp.configs, c17Config{Kind: "deterministic", Seed: s})
		sp.configs = append(sp.configs, c17Config{Kind: "collection", Seed: s})
		for p := 0; p < 2; p++ {
			sp.configs = append(sp.configs, c17Config{Kind: "bip44", Seed: s, Pass: p})
			sp.configs = append(sp.configs, c17Config{Kind: "xpub", Seed: s, Pass: p})
		}
	}
	r.SetBudget(time.Duration(r.Pick(85, 1000)) * time.Second)
	res := engine.BFS(engine.Space[*c17Live, c17Op]{
		New:   func() *c17Live { return &c17Live{} },
		Ops:   sp.ops,
		Apply: sp.apply,
		Key: func(l *c17Live) string {
			if l.cfg == nil {
				return "root"
			}
			return l.cfg.String() + "|" + l.bad + "|" + verifState(l.w)
		},
		Invariant: sp.invariant,
		Stop:      r.OutOfTime,
		Workers:   16,
	})
	// vacuity guards
	for _, k := range []string{"gen", "lockedgen", "scan-keeps-nothing", "scan-truncates", "scan-keeps-all", "scan-refused(collection)", "reload", "clone", "lockunlock",
		"new:deterministic", "new:bip44", "new:xpub", "new:collection"} {
		if res.Outcomes[k] == 0 {
			r.Broken("vacuous: outcome class %q never exercised (%v)", k, res.Outcomes)
		}
	}
	if sp.checks.Get("entry-checked") == 0 || sp.checks.Get("xpub-vs-bip44-external-addresses") == 0 {
		r.Broken("vacuous: entry oracle never ran (%v)", sp.checks.Map())
	}
	// every (config, external length, change length) inside the bounds must have been reached
	wantStates := 1
	for _, c := range sp.configs {
		switch c.Kind {
		case "bip44":
			wantStates += sp.maxLen[0] * sp.maxLen[1] // the constructor derives one address on each chain
		default:
			wantStates += sp.maxLen[0] + 1
		}
	}
	if res.Exhaustive && res.States != wantStates {
		r.Failf("state-space:unexpected-number-of-states", map[string]int{"states": res.States, "expected": wantStates},
			"%d distinct complete wallet states reached, expected exactly %d = one per (configuration, chain lengths): histories that should commute led to different wallets", res.States, wantStates)
	}
	cov := res.Coverage("state = complete in-memory wallet (metadata incl. seed/lastSeed, all entries with keys, bip44 account key and chain xpubs); " +
		"BFS over the real wallet objects, every transition executed on the implementation and compared with the single-batch / reference derivation")
	cov["configurations"] = len(sp.configs)
	cov["bounds"] = map[string]int{"max_external": sp.maxLen[0], "max_change": sp.maxLen[1]}
	cov["expected_states"] = wantStates
	cov["oracle_checks"] = sp.checks.Map()
	cov["alphabet"] = map[string]interface{}{"generate_k": []int{1, 2, 3}, "scan_k": []int{1, 2, 3}, "scan_masks": "all 2^k; bip44: all 2^k × 2^k pairs (quick tier: full pairs for 2 of the 6 bip44 configurations, for the other 4 every mask on each chain paired with {none, same, all} on the other)", "seeds": 3, "passphrases": 2,
		"kinds": []string{"deterministic", "bip44", "xpub", "collection"}}
	r.Assumptions = append(r.Assumptions,
		fmt.Sprintf("chains bounded at %d external / %d change addresses; batches and scans of 1..3", sp.maxLen[0], sp.maxLen[1]),
		"reload = Serialize + the type's Loader (no file system), Lock/Unlock with sha256-xor; the state search uses bip44 account 0 only, wallets with two accounts are covered by the sequence product of part M",
		"independent derivations (model/walletref): original skycoin chain per the secp256k1.DeterministicKeyPairIterator comment, BIP39+BIP32+BIP44 (m/44'/8000'/0'/c/i, CKDpub for xpub) on math/big secp256k1; collection = address(pub(secret)) of the added keys",
		"state merging is by the complete exported state; the decoder pointer is the only field left out")
	_ = strings.Join
	cov["two_account_wallets"] = c17Multi(r, sp.checks)
	cov["recovery_through_the_service"] = c17Recover(r, sp.checks)
	r.Finish(cov)
}
