package main

import (
	"bytes"
	"fmt"

	"github.com/skycoin/skycoin/src/cipher/crypto"
	"github.com/skycoin/skycoin/src/wallet"
	"github.com/skycoin/skycoin/src/wallet/bip44wallet"

	"verif/engine"
	"verif/model/walletref"
)

// C17 part M — bip44 wallets with TWO accounts.
//
// Every operation sequence of length ≤ 4 (thorough 5) over {generate one address on (account a, chain c), Clone,
// Lock→Unlock, Serialize→Load} on a wallet with accounts 0 and 1; after every step, every (account, chain) must hold exactly
// the prefix of the independent BIP44 derivation m/44'/coin'/account'/chain/i (address, public key, secret key) of the
// length the history determines.  The single-account state search cannot see a copy that mixes accounts up.
func c17Multi(r *engine.Run, oc *engine.Counter) map[string]interface{} {
	type mop struct {
		kind          string
		account, chain int
	}
	var alphabet []mop
	for a := 0; a < 2; a++ {
		for c := 0; c < 2; c++ {
			alphabet = append(alphabet, mop{"generate", a, c})
		}
	}
	alphabet = append(alphabet, mop{kind: "clone"}, mop{kind: "lock-unlock"}, mop{kind: "reload"})
	name := func(o mop) string {
		if o.kind == "generate" {
			return fmt.Sprintf("generate(account %d, chain %d)", o.account, o.chain)
		}
		return o.kind
	}
	maxLen := r.Pick(4, 5)
	mn, pass := bipMnemonic(2), bipPassphrases[1]
	const maxN = 8
	var ref [2][2][]walletref.DetEntry
	for a := 0; a < 2; a++ {
		for c := 0; c < 2; c++ {
			es, err := walletref.Bip44Chain(mn, pass, 8000, uint32(a), uint32(c), maxN, false)
			if err != nil {
				r.Broken("reference derivation: %v", err)
				return nil
			}
			ref[a][c] = es
		}
	}
	fresh := func() (wallet.Wallet, [2][2]int, error) {
		w := newBip44(mn, pass, crypto.CryptoTypeSha256Xor)
		idx, err := w.NewAccount("second")
		if err != nil || idx != 1 {
			return nil, [2][2]int{}, fmt.Errorf("NewAccount: index %d err %v", idx, err)
		}
		var n [2][2]int
		for a := 0; a < 2; a++ {
			for c := 0; c < 2; c++ {
				es, err := accountEntries(w, a, c)
				if err != nil {
					return nil, n, err
				}
				n[a][c] = len(es)
			}
		}
		return w, n, nil
	}
	check := func(w wallet.Wallet, n [2][2]int, hist []string) {
		for a := 0; a < 2; a++ {
			for c := 0; c < 2; c++ {
				es, err := accountEntries(w, a, c)
				cs := map[string]interface{}{"history": hist, "account": a, "chain": c}
				if err != nil {
					r.Failf("bip44-two-accounts:entries-unreadable", cs, "history %v: account %d chain %d: %v", hist, a, c, err)
					continue
				}
				if len(es) != n[a][c] {
					r.Failf("bip44-two-accounts:wrong-number-of-entries", cs, "history %v: account %d chain %d holds %d entries, the history generated %d", hist, a, c, len(es), n[a][c])
					continue
				}
				for i, e := range es {
					want := ref[a][c][i]
					switch {
					case e.Address.String() != want.Address:
						r.Failf("bip44-two-accounts:address-differs-from-bip44-derivation", cs, "history %v: account %d chain %d entry %d: address %s, BIP44 m/44'/coin'/%d'/%d/%d gives %s", hist, a, c, i, e.Address, a, c, i, want.Address)
					case !bytes.Equal(e.Public[:], want.Pub):
						r.Failf("bip44-two-accounts:public-key-differs-from-bip44-derivation", cs, "history %v: account %d chain %d entry %d", hist, a, c, i)
					case !bytes.Equal(e.Secret[:], want.Sec):
						r.Failf("bip44-two-accounts:secret-key-differs-from-bip44-derivation", cs, "history %v: account %d chain %d entry %d", hist, a, c, i)
					}
				}
			}
		}
	}
	evals := 0
	var rec func(hist []mop)
	run := func(hist []mop) {
		w, n, err := fresh()
		if err != nil {
			r.Broken("two-account fixture: %v", err)
			return
		}
		var names []string
		for _, o := range hist {
			names = append(names, name(o))
			pan, msg := engine.Catch(func() {
				switch o.kind {
				case "generate":
					if n[o.account][o.chain] >= maxN {
						return
					}
					opts := []wallet.Option{wallet.OptionGenerateN(1), wallet.OptionAccount(uint32(o.account))}
					if o.chain == 1 {
						opts = append(opts, wallet.OptionChange())
					}
					if _, err := w.GenerateAddresses(opts...); err != nil {
						r.Failf("bip44-two-accounts:generate-fails", names, "history %v: %v", names, err)
						return
					}
					n[o.account][o.chain]++
				case "clone":
					w = w.Clone()
				case "lock-unlock":
					if err := w.Lock([]byte("pw")); err != nil {
						r.Failf("bip44-two-accounts:lock-fails", names, "history %v: %v", names, err)
						return
					}
					u, err := w.Unlock([]byte("pw"))
					if err != nil {
						r.Failf("bip44-two-accounts:unlock-fails", names, "history %v: %v", names, err)
						return
					}
					w = u
				case "reload":
					b, err := w.Serialize()
					if err != nil {
						r.Failf("bip44-two-accounts:serialize-fails", names, "history %v: %v", names, err)
						return
					}
					nw := &bip44wallet.Wallet{}
					if err := nw.Deserialize(b); err != nil {
						r.Failf("bip44-two-accounts:deserialize-fails", names, "history %v: %v", names, err)
						return
					}
					w = nw
				}
			})
			if pan {
				r.Failf("bip44-two-accounts:panic", names, "history %v: %s", names, msg)
				return
			}
		}
		check(w, n, names)
		evals++
		oc.Add("two-accounts:" + fmt.Sprint(len(hist)))
	}
	rec = func(hist []mop) {
		run(hist)
		if len(hist) == maxLen {
			return
		}
		for _, o := range alphabet {
			rec(append(append([]mop{}, hist...), o))
		}
	}
	rec(nil)
	return map[string]interface{}{
		"what":                "every operation sequence up to the stated length over {generate on (account, chain) × 4, Clone, Lock→Unlock, Serialize→Load} on a bip44 wallet with two accounts; all four (account, chain) entry lists vs the independent BIP44 derivation after each sequence",
		"max_sequence_length": maxLen,
		"sequences":           evals,
	}
}

func accountEntries(w wallet.Wallet, account, chain int) (wallet.Entries, error) {
	opts := []wallet.Option{wallet.OptionAccount(uint32(account))}
	if chain == 1 {
		opts = append(opts, wallet.OptionChange())
	} else {
		opts = append(opts, wallet.OptionExternal())
	}
	return w.GetEntries(opts...)
}
