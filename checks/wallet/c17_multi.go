package main

import (
	"bytes"
	"fmt"
	"os"
	"path/filepath"

	"github.com/skycoin/skycoin/src/cipher/bip44"

	"github.com/skycoin/skycoin/src/cipher/crypto"
	"github.com/skycoin/skycoin/src/wallet"
	"github.com/skycoin/skycoin/src/wallet/bip44wallet"

	"verif/engine"
	"verif/model/walletref"
)

// C17 part M — bip44 wallets with TWO accounts.
//
// Every operation sequence of length ≤ 4 (thorough 5) over {generate one address on (account a, chain c), Clone,
// Lock→Unlock, Serialize→Load} on a wallet with accounts 0 and 1; after every step, every (account, chain) must hold exactly
// the prefix of the independent BIP44 derivation m/44'/coin'/account'/chain/i (address, public key, secret key) of the
// length the history determines.  The single-account state search cannot see a copy that mixes accounts up.
func c17Multi(r *engine.Run, oc *engine.Counter) map[string]interface{} {
	type mop struct {
		kind           string
		account, chain int
	}
	var alphabet []mop
	for a := 0; a < 2; a++ {
		for c := 0; c < 2; c++ {
			alphabet = append(alphabet, mop{"generate", a, c})
		}
	}
	alphabet = append(alphabet, mop{kind: "clone"}, mop{kind: "lock-unlock"}, mop{kind: "reload"})
	name := func(o mop) string {
		if o.kind == "generate" {
			return fmt.Sprintf("generate(account %d, chain %d)", o.account, o.chain)
		}
		return o.kind
	}
	maxLen := r.Pick(4, 5)
	mn, pass := bipMnemonic(2), bipPassphrases[1]
	const maxN = 8
	var ref [2][2][]walletref.DetEntry
	for a := 0; a < 2; a++ {
		for c := 0; c < 2; c++ {
			es, err := walletref.Bip44Chain(mn, pass, 8000, uint32(a), uint32(c), maxN, false)
			if err != nil {
				r.Broken("reference derivation: %v", err)
				return nil
			}
			ref[a][c] = es
		}
	}
	fresh := func() (wallet.Wallet, [2][2]int, error) {
		w := newBip44(mn, pass, crypto.CryptoTypeSha256Xor)
		idx, err := w.NewAccount("second")
		if err != nil || idx != 1 {
			return nil, [2][2]int{}, fmt.Errorf("NewAccount: index %d err %v", idx, err)
		}
		var n [2][2]int
		for a := 0; a < 2; a++ {
			for c := 0; c < 2; c++ {
				es, err := accountEntries(w, a, c)
				if err != nil {
					return nil, n, err
				}
				n[a][c] = len(es)
			}
		}
		return w, n, nil
	}
	check := func(w wallet.Wallet, n [2][2]int, hist []string) {
		for a := 0; a < 2; a++ {
			for c := 0; c < 2; c++ {
				es, err := accountEntries(w, a, c)
				cs := map[string]interface{}{"history": hist, "account": a, "chain": c}
				if err != nil {
					r.Failf("bip44-two-accounts:entries-unreadable", cs, "history %v: account %d chain %d: %v", hist, a, c, err)
					continue
				}
				if len(es) != n[a][c] {
					r.Failf("bip44-two-accounts:wrong-number-of-entries", cs, "history %v: account %d chain %d holds %d entries, the history generated %d", hist, a, c, len(es), n[a][c])
					continue
				}
				for i, e := range es {
					want := ref[a][c][i]
					switch {
					case e.Address.String() != want.Address:
						r.Failf("bip44-two-accounts:address-differs-from-bip44-derivation", cs, "history %v: account %d chain %d entry %d: address %s, BIP44 m/44'/coin'/%d'/%d/%d gives %s", hist, a, c, i, e.Address, a, c, i, want.Address)
					case !bytes.Equal(e.Public[:], want.Pub):
						r.Failf("bip44-two-accounts:public-key-differs-from-bip44-derivation", cs, "history %v: account %d chain %d entry %d", hist, a, c, i)
					case !bytes.Equal(e.Secret[:], want.Sec):
						r.Failf("bip44-two-accounts:secret-key-differs-from-bip44-derivation", cs, "history %v: account %d chain %d entry %d", hist, a, c, i)
					}
				}
			}
		}
	}
	evals := 0
	var rec func(hist []mop)
	run := func(hist []mop) {
		w, n, err := fresh()
		if err != nil {
			r.Broken("two-account fixture: %v", err)
			return
		}
		var names []string
		for _, o := range hist {
			names = append(names, name(o))
			pan, msg := engine.Catch(func() {
				switch o.kind {
				case "generate":
					if n[o.account][o.chain] >= maxN {
						return
					}
					opts := []wallet.Option{wallet.OptionGenerateN(1), wallet.OptionAccount(uint32(o.account))}
					if o.chain == 1 {
						opts = append(opts, wallet.OptionChange())
					}
					if _, err := w.GenerateAddresses(opts...); err != nil {
						r.Failf("bip44-two-accounts:generate-fails", names, "history %v: %v", names, err)
						return
					}
					n[o.account][o.chain]++
				case "clone":
					w = w.Clone()
				case "lock-unlock":
					if err := w.Lock([]byte("pw")); err != nil {
						r.Failf("bip44-two-accounts:lock-fails", names, "history %v: %v", names, err)
						return
					}
					u, err := w.Unlock([]byte("pw"))
					if err != nil {
						r.Failf("bip44-two-accounts:unlock-fails", names, "history %v: %v", names, err)
						return
					}
					w = u
				case "reload":
					b, err := w.Serialize()
					if err != nil {
						r.Failf("bip44-two-accounts:serialize-fails", names, "history %v: %v", names, err)
						return
					}
					nw := &bip44wallet.Wallet{}
					if err := nw.Deserialize(b); err != nil {
						r.Failf("bip44-two-accounts:deserialize-fails", names, "history %v: %v", names, err)
						return
					}
					w = nw
				}
			})
			if pan {
				r.Failf("bip44-two-accounts:panic", names, "history %v: %s", names, msg)
				return
			}
		}
		check(w, n, names)
		evals++
		oc.Add("two-accounts:" + fmt.Sprint(len(hist)))
	}
	rec = func(hist []mop) {
		run(hist)
		if len(hist) == maxLen {
			return
		}
		for _, o := range alphabet {
			rec(append(append([]mop{}, hist...), o))
		}
	}
	rec(nil)
	return map[string]interface{}{
		"what":                "every operation sequence up to the stated length over {generate on (account, chain) × 4, Clone, Lock→Unlock, Serialize→Load} on a bip44 wallet with two accounts; all four (account, chain) entry lists vs the independent BIP44 derivation after each sequence",
		"max_sequence_length": maxLen,
		"sequences":           evals,
	}
}

func accountEntries(w wallet.Wallet, account, chain int) (wallet.Entries, error) {
	opts := []wallet.Option{wallet.OptionAccount(uint32(account))}
	if chain == 1 {
		opts = append(opts, wallet.OptionChange())
	} else {
		opts = append(opts, wallet.OptionExternal())
	}
	return w.GetEntries(opts...)
}

// C17 part R — recovery through the wallet service.  Service.RecoverWallet rebuilds an encrypted wallet from its seed (and seed
// passphrase) to reset the password; the rebuilt wallet must hold exactly the addresses the old one held (they depend on seed,
// passphrase, chain and count only), and they must be the independent derivation.
func c17Recover(r *engine.Run, oc *engine.Counter) map[string]interface{} {
	dir, err := os.MkdirTemp(engine.Scratch(), "c17recover")
	if err != nil {
		r.Broken("scratch: %v", err)
		return nil
	}
	defer os.RemoveAll(dir)
	cfg := wallet.NewConfig()
	cfg.WalletDir = dir
	cfg.EnableWalletAPI = true
	cfg.EnableSeedAPI = true
	cfg.CryptoType = crypto.CryptoTypeSha256Xor
	bc := bip44.CoinTypeSkycoin
	cfg.Bip44Coin = &bc
	evals := 0
	caseNo := 0
	addrs := func(w wallet.Wallet) []string {
		var out []string
		for _, chain := range []int{0, 1} {
			es, err := accountEntries(w, 0, chain)
			if err != nil {
				return []string{"error: " + err.Error()}
			}
			for _, e := range es {
				out = append(out, fmt.Sprintf("%d/%s", chain, e.Address))
			}
		}
		return out
	}
	for mi := 0; mi < 2; mi++ {
		for pi, pass := range bipPassphrases {
			for _, extra := range []uint64{0, 2} {
				for _, newPw := range []string{"", "new-password"} {
					caseNo++
					cfg.WalletDir = filepath.Join(dir, fmt.Sprint(caseNo)) // a service of its own per case (one wallet per seed)
					s, err := wallet.NewService(cfg)
					if err != nil {
						r.Broken("wallet.NewService: %v", err)
						return nil
					}
					name := fmt.Sprintf("rec-%d-%d-%d-%d.wlt", mi, pi, extra, len(newPw))
					cs := map[string]interface{}{"mnemonic": mi, "seed_passphrase": pass, "extra_addresses": extra, "new_password": newPw != ""}
					_, err = s.CreateWallet(name, wallet.Options{Type: wallet.WalletTypeBip44, Seed: bipMnemonic(mi), SeedPassphrase: pass, Label: "r", Encrypt: true, Password: []byte("pw"), CryptoType: crypto.CryptoTypeSha256Xor})
					if err != nil {
						r.Broken("CreateWallet: %v", err)
						continue
					}
					if extra > 0 {
						if _, err := s.NewAddresses(name, []byte("pw"), wallet.OptionGenerateN(extra)); err != nil {
							r.Broken("NewAddresses: %v", err)
							continue
						}
					}
					before, err := s.GetWallet(name)
					if err != nil {
						r.Broken("GetWallet: %v", err)
						continue
					}
					var pw []byte
					if newPw != "" {
						pw = []byte(newPw)
					}
					after, err := s.RecoverWallet(name, bipMnemonic(mi), pass, pw)
					evals++
					oc.Add("service-recover")
					if err != nil {
						r.Failf("Service.RecoverWallet:refuses-the-right-seed-and-passphrase", cs, "%v", err)
						continue
					}
					got, want := addrs(after), addrs(before)
					ref, _ := walletref.Bip44Chain(bipMnemonic(mi), pass, 8000, 0, 0, 1, false)
					// recovery regenerates the first address of each chain (a scan restores the others): the addresses it holds must be a
					// prefix, per chain, of what the wallet held - and the first external one is the independent derivation
					if len(got) == 0 || len(ref) == 0 || got[0] != "0/"+ref[0].Address {
						r.Failf("Service.RecoverWallet:recovered-wallet-derives-other-addresses", cs, "first external address after recovery %v, BIP44 derivation of (mnemonic, passphrase) gives %s; before recovery the wallet held %v", got, ref[0].Address, want)
						continue
					}
					held := map[string]bool{}
					for _, a := range want {
						held[a] = true
					}
					for _, a := range got {
						if !held[a] {
							r.Failf("Service.RecoverWallet:recovered-wallet-derives-other-addresses", cs, "after recovery the wallet holds %s, which it did not hold before (%v)", a, want)
							break
						}
					}
				}
			}
		}
	}
	return map[string]interface{}{"what": "bip44 wallets (2 mnemonics × seed passphrase {none, set} × 0/2 extra addresses × new password {none, set}) created encrypted in a real wallet.Service, recovered with the right seed and passphrase: the recovered wallet's addresses are addresses the wallet held, the first one the independent BIP44 derivation", "recoveries": evals}
}
