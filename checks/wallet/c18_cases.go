package main

import (
	"bytes"
	"encoding/base64"
	"encoding/binary"
	"encoding/json"
	"fmt"
	"io"
	"regexp"
	"strings"

	"github.com/skycoin/skycoin/src/cipher/encrypt"

	"verif/model/walletref"
)

// ---- part (b): the Decrypt robustness alphabet ----

const (
	cScrypt = "scrypt-chacha20poly1305"
	cXor    = "sha256-xor"
)

// dcase is one Decrypt call together with the reference model's expectation.
type dcase struct {
	Cipher string `json:"cipher"`
	Family string `json:"family"` // which mutation family produced the input
	Class  string `json:"class"`  // discriminating input class (goes into the signature)
	Desc   string `json:"desc"`
	Text   []byte `json:"ciphertext"` // handed to Decrypt as is
	PwKind string `json:"password_kind"`
	Pw     []byte `json:"password"`
	// expectation of the reference model: "plain" (must return Plain), "error" (must return an error),
	// "either" (integrity fields verify but layout not canonical: plaintext Plain or an error)
	Expect string `json:"model_expects"`
	Plain  []byte `json:"model_plaintext,omitempty"`
	Why    string `json:"model_reason,omitempty"`
}

type baseCT struct {
	Name  string
	Raw   []byte
	Pw    []byte
	Plain []byte
}

var b64 = base64.StdEncoding

func b64enc(raw []byte) []byte { return []byte(b64.EncodeToString(raw)) }

func le16(v int) []byte {
	b := make([]byte, 2)
	binary.LittleEndian.PutUint16(b, uint16(v))
	return b
}

func fixedBytes(label string, n int) []byte {
	var out []byte
	for i := 0; len(out) < n; i++ {
		h := sha256sum([]byte(fmt.Sprintf("%s/%d", label, i)))
		out = append(out, h...)
	}
	return out[:n]
}

var c18Plaintexts = [][]byte{
	{},
	[]byte("x"),
	fixedBytes("verif C18 plaintext 32", 32),
	[]byte(`{"seed":"verif plaintext json","lastSeed":"00ff"}`),
}

var c18BasePw = [][]byte{[]byte("pw"), []byte("p"), []byte("päss wörd"), fixedBytes("verif C18 long password", 64)}

// scryptBases: two ciphertexts built by the reference (fixed salt/nonce, so the bytes are the same in
// every run) and two produced by the real Encrypt (random salt/nonce; only verdicts are compared).
func scryptBases() []baseCT {
	var out []baseCT
	small := encrypt.ScryptChacha20poly1305{N: 16, R: 8, P: 1, KeyLen: 32}
	for i, pt := range c18Plaintexts {
		pw := c18BasePw[i]
		var raw []byte
		name := ""
		if i%2 == 0 {
			m := walletref.ScryptMeta{N: 16, R: 8, P: 1, KeyLen: 32, Salt: fixedBytes(fmt.Sprintf("salt %d", i), 32), Nonce: fixedBytes(fmt.Sprintf("nonce %d", i), 12)}
			var err error
			raw, err = walletref.ScryptSealRaw(pt, pw, m)
			must(err)
			name = fmt.Sprintf("reference-built(plaintext %d bytes)", len(pt))
		} else {
			text, err := small.Encrypt(pt, pw)
			must(err)
			raw, err = b64.DecodeString(string(text))
			must(err)
			name = fmt.Sprintf("Encrypt-built(plaintext %d bytes)", len(pt))
		}
		out = append(out, baseCT{Name: name, Raw: raw, Pw: pw, Plain: pt})
	}
	return out
}

func xorBases() []baseCT {
	var out []baseCT
	lens := []int{0, 1, 27, 28, 29, 60, 100}
	for i, n := range lens {
		pt := fixedBytes(fmt.Sprintf("verif C18 xor plaintext %d", n), n)
		pw := c18BasePw[i%len(c18BasePw)]
		var raw []byte
		name := ""
		if i%3 != 2 {
			raw = walletref.XorEncryptRaw(pt, pw, fixedBytes(fmt.Sprintf("xor nonce %d", i), 32))
			name = fmt.Sprintf("reference-built(plaintext %d bytes)", n)
		} else {
			text, err := encrypt.Sha256Xor{}.Encrypt(pt, pw)
			must(err)
			raw, err = b64.DecodeString(string(text))
			must(err)
			name = fmt.Sprintf("Encrypt-built(plaintext %d bytes)", n)
		}
		out = append(out, baseCT{Name: name, Raw: raw, Pw: pw, Plain: pt})
	}
	return out
}

type rawInput struct {
	Family, Class, Desc string
	Text                []byte
}

// tinyBase64Strings: every string of length ≤ 4 over {'A','/','=','!','B'}.
func tinyBase64Strings() [][]byte {
	alpha := []byte{'A', '/', '=', '!', 'B'}
	out := [][]byte{{}}
	prev := [][]byte{{}}
	for l := 1; l <= 4; l++ {
		var next [][]byte
		for _, p := range prev {
			for _, c := range alpha {
				next = append(next, append(append([]byte{}, p...), c))
			}
		}
		out = append(out, next...)
		prev = next
	}
	return out
}

func decodedLenClass(text []byte) string {
	raw, err := b64.DecodeString(string(text))
	if err != nil {
		return "invalid-base64"
	}
	switch {
	case len(raw) < 2:
		return fmt.Sprintf("decodes-to-%d-bytes", len(raw))
	default:
		return "decodes-to-2..3-bytes"
	}
}

type scryptFieldSets struct {
	N, R, P, KeyLen, SaltLen, NonceLen []int
}

// scryptInputs builds the mutated inputs of one base ciphertext.
func scryptInputs(b baseCT, product *scryptFieldSets, single scryptFieldSets) []rawInput {
	var in []rawInput
	raw := b.Raw
	m, meta, sealed, err := walletref.ScryptSplit(raw)
	must(err)
	ml := len(meta)
	in = append(in, rawInput{"valid", "untouched", "the valid ciphertext", b64enc(raw)})
	// every truncation of the raw bytes
	for k := 0; k < len(raw); k++ {
		class := "cut-inside-sealed-part"
		switch {
		case k < 2:
			class = fmt.Sprintf("raw-length-%d", k)
		case k < 2+ml:
			class = "cut-inside-metadata"
		case k < 2+ml+16:
			class = "sealed-part-shorter-than-tag"
		}
		in = append(in, rawInput{"truncate-raw", class, fmt.Sprintf("raw[:%d] of %d", k, len(raw)), b64enc(raw[:k])})
	}
	// every truncation of the base64 text
	text := b64enc(raw)
	for k := 0; k < len(text); k++ {
		in = append(in, rawInput{"truncate-base64", fmt.Sprintf("text-length-mod4=%d", k%4), fmt.Sprintf("text[:%d] of %d", k, len(text)), text[:k]})
	}
	// metadata length prefix
	for _, l := range []struct {
		v   int
		sym string
	}{{0, "0"}, {1, "1"}, {2, "2"}, {ml - 1, "len-1"}, {ml, "len"}, {ml + 1, "len+1"}, {len(raw) - 2, "all-remaining"}, {len(raw) - 1, "all-remaining+1"},
		{65533, "65533"}, {65534, "65534"}, {65535, "65535"}} {
		full := append(le16(l.v), raw[2:]...)
		in = append(in, rawInput{"meta-length-prefix", "prefix=" + l.sym, fmt.Sprintf("length prefix %d (true %d), body kept", l.v, ml), b64enc(full)})
		in = append(in, rawInput{"meta-length-prefix", "prefix=" + l.sym + ",no-body", fmt.Sprintf("length prefix %d and nothing else", l.v), b64enc(le16(l.v))})
		in = append(in, rawInput{"meta-length-prefix", "prefix=" + l.sym + ",one-byte-body", fmt.Sprintf("length prefix %d and one byte", l.v), b64enc(append(le16(l.v), '{'))})
	}
	// metadata fields
	build := func(n, r, p, kl, sl, nl int) []byte {
		mm := walletref.ScryptMeta{N: n, R: r, P: p, KeyLen: kl, Salt: padTo(m.Salt, sl), Nonce: padTo(m.Nonce, nl)}
		ms, err := json.Marshal(mm)
		must(err)
		return b64enc(append(append(le16(len(ms)), ms...), sealed...))
	}
	for _, v := range single.N {
		in = append(in, rawInput{"meta-field", fmt.Sprintf("n=%d", v), "n replaced", build(v, m.R, m.P, m.KeyLen, len(m.Salt), len(m.Nonce))})
	}
	for _, v := range single.R {
		in = append(in, rawInput{"meta-field", fmt.Sprintf("r=%d", v), "r replaced", build(m.N, v, m.P, m.KeyLen, len(m.Salt), len(m.Nonce))})
	}
	for _, v := range single.P {
		in = append(in, rawInput{"meta-field", fmt.Sprintf("p=%d", v), "p replaced", build(m.N, m.R, v, m.KeyLen, len(m.Salt), len(m.Nonce))})
	}
	for _, v := range single.KeyLen {
		in = append(in, rawInput{"meta-field", fmt.Sprintf("keyLen=%d", v), "keyLen replaced", build(m.N, m.R, m.P, v, len(m.Salt), len(m.Nonce))})
	}
	for _, v := range single.SaltLen {
		in = append(in, rawInput{"meta-field", fmt.Sprintf("salt-length=%d", v), "salt resized", build(m.N, m.R, m.P, m.KeyLen, v, len(m.Nonce))})
	}
	for _, v := range single.NonceLen {
		in = append(in, rawInput{"meta-field", fmt.Sprintf("nonce-length=%d", v), "nonce resized", build(m.N, m.R, m.P, m.KeyLen, len(m.Salt), v)})
	}
	// metadata that is not the expected JSON object
	for _, alt := range []struct{ class, js string }{
		{"meta-json=empty-object", `{}`}, {"meta-json=null", `null`}, {"meta-json=array", `[]`}, {"meta-json=missing-nonce", `{"n":16,"r":8,"p":1,"keyLen":32,"salt":"AAAA"}`},
		{"meta-json=nonce-null", `{"n":16,"r":8,"p":1,"keyLen":32,"salt":"AAAA","nonce":null}`}, {"meta-json=n-string", `{"n":"16"}`},
		{"meta-json=n-float", `{"n":1.5e1,"r":8,"p":1,"keyLen":32}`}, {"meta-json=n-huge", `{"n":1e400}`}, {"meta-json=not-json", `{"n":16,`}, {"meta-json=empty", ``},
	} {
		in = append(in, rawInput{"meta-json", alt.class, alt.js, b64enc(append(append(le16(len(alt.js)), alt.js...), sealed...))})
	}
	if product != nil {
		for _, n := range product.N {
			for _, r := range product.R {
				for _, p := range product.P {
					for _, kl := range product.KeyLen {
						for _, sl := range product.SaltLen {
							for _, nl := range product.NonceLen {
								class := fmt.Sprintf("n%s,r%s,p%s,keyLen%s,salt%d,nonce%s", symN(n), symRP(r), symRP(p), symKL(kl), sl, symNonce(nl))
								in = append(in, rawInput{"meta-product", class, fmt.Sprintf("n=%d r=%d p=%d keyLen=%d salt=%d nonce=%d", n, r, p, kl, sl, nl), build(n, r, p, kl, sl, nl)})
							}
						}
					}
				}
			}
		}
	}
	return in
}

func symN(n int) string {
	switch {
	case n < 0:
		return "<0"
	case n <= 1:
		return fmt.Sprintf("=%d", n)
	case n&(n-1) != 0:
		return "=not-power-of-2"
	}
	return "=ok"
}
func symRP(v int) string {
	switch {
	case v < 0:
		return "<0"
	case v == 0:
		return "=0"
	}
	return ">0"
}
func symKL(v int) string {
	switch {
	case v < 0:
		return "<0"
	case v == 32:
		return "=32"
	}
	return "!=32"
}
func symNonce(v int) string {
	if v == 12 {
		return "=12"
	}
	return "!=12"
}

func padTo(b []byte, n int) []byte {
	out := make([]byte, n)
	copy(out, b)
	return out
}

// xorInputs builds the mutated inputs of one sha256-xor base ciphertext.
func xorInputs(b baseCT) []rawInput {
	var in []rawInput
	raw := b.Raw
	in = append(in, rawInput{"valid", "untouched", "the valid ciphertext", b64enc(raw)})
	for k := 0; k < len(raw); k++ {
		class := "cut-inside-blocks"
		switch {
		case k < 32:
			class = "cut-inside-checksum"
		case k < 64:
			class = "cut-inside-nonce"
		}
		in = append(in, rawInput{"truncate-raw", class, fmt.Sprintf("raw[:%d] of %d", k, len(raw)), b64enc(raw[:k])})
	}
	text := b64enc(raw)
	for k := 0; k < len(text); k++ {
		in = append(in, rawInput{"truncate-base64", fmt.Sprintf("text-length-mod4=%d", k%4), fmt.Sprintf("text[:%d] of %d", k, len(text)), text[:k]})
	}
	// checksum violations: every checksum byte, first/last nonce byte, first/last block byte
	flip := func(i int) []byte {
		c := append([]byte{}, raw...)
		c[i] ^= 0x01
		return b64enc(c)
	}
	for i := 0; i < 32; i++ {
		in = append(in, rawInput{"checksum-violation", "checksum-byte-flipped", fmt.Sprintf("checksum byte %d", i), flip(i)})
	}
	for _, i := range []int{32, 63, 64, len(raw) - 1} {
		in = append(in, rawInput{"checksum-violation", "covered-byte-flipped", fmt.Sprintf("byte %d (checksum kept)", i), flip(i)})
	}
	// truncations with the checksum recomputed: reaches the nonce / block-size checks
	rest := raw[32:]
	for k := 0; k <= len(rest); k++ {
		class := ""
		switch {
		case k < 32:
			class = fmt.Sprintf("nonce-short(%s)", map[bool]string{true: "empty", false: "partial"}[k == 0])
		case (k-32)%32 != 0:
			class = "partial-last-block"
		case k-32 == 0:
			class = "no-blocks"
		case k-32 == 32:
			class = "hash-block-only"
		default:
			class = "whole-blocks-removed"
		}
		if k == len(rest) {
			class = "identity"
		}
		r2 := rest[:k]
		in = append(in, rawInput{"resealed-truncation", class, fmt.Sprintf("nonce||blocks cut to %d bytes, checksum recomputed", k), b64enc(append(sha256sum(r2), r2...))})
	}
	// well-sealed ciphertexts under the right password with a bad interior
	nonce := rest[:32]
	seal := func(fam, class, desc string, inner []byte) {
		in = append(in, rawInput{fam, class, desc, b64enc(walletref.XorSeal(b.Pw, nonce, inner))})
	}
	n := len(b.Plain)
	body := walletref.XorBody(b.Plain, uint32(n))
	avail := len(body) - 4
	for _, l := range []struct {
		v   uint32
		sym string
	}{{0, "0"}, {uint32(n) - 1, "len-1"}, {uint32(n), "len"}, {uint32(n) + 1, "len+1"}, {uint32(avail), "all-available"}, {uint32(avail) + 1, "all-available+1"},
		{1 << 31, "2^31"}, {0xffffffff, "2^32-1"}} {
		bd := walletref.XorBody(b.Plain, l.v)
		seal("sealed-length-field", "length="+l.sym, fmt.Sprintf("length field %d, true %d, available %d", l.v, n, avail), append(sha256sum(bd), bd...))
	}
	wrongHash := append(sha256sum(body), body...)
	wrongHash[0] ^= 1
	seal("sealed-inner", "inner-hash-wrong", "inner hash flipped", wrongHash)
	seal("sealed-inner", "inner=hash-of-empty-only", "inner is sha256(\"\") and nothing else", sha256sum(nil))
	nz := append([]byte{}, body...)
	if len(nz) > 4+n {
		nz[len(nz)-1] = 0x55
		seal("sealed-inner", "non-zero-padding", "last padding byte 0x55", append(sha256sum(nz), nz...))
	}
	extra := append(append([]byte{}, body...), make([]byte, 32)...)
	seal("sealed-inner", "surplus-padding-block", "one extra all-zero block", append(sha256sum(extra), extra...))
	for _, sz := range []int{33, 63, 65} {
		inner := append(sha256sum(body), body...)
		if sz > len(inner) {
			inner = append(inner, make([]byte, sz-len(inner))...)
		}
		seal("sealed-inner", "inner-not-multiple-of-32", fmt.Sprintf("inner cut/padded to %d bytes", sz), inner[:sz])
	}
	return in
}

// expectation of the reference model for one input and one password
func scryptExpect(text, pw []byte) (string, []byte, string) {
	raw, err := b64.DecodeString(string(text))
	if err != nil {
		return "error", nil, "invalid base64"
	}
	plain, err := walletref.ScryptOpenRaw(raw, pw)
	if err != nil {
		return "error", nil, err.Error()
	}
	return "plain", plain, ""
}

func xorExpect(text, pw []byte) (string, []byte, string) {
	v := walletref.XorClassifyText(text, pw)
	switch {
	case v.StrictOK:
		return "plain", v.Plain, ""
	case v.LenientOK:
		return "either", v.Plain, v.Why
	}
	return "error", nil, v.Why
}

// ---- panic classification: one signature per panic SITE ----

var digitsRe = regexp.MustCompile(`[0-9]+`)

func panicSite(cipherName, msg string) string {
	switch {
	case strings.Contains(msg, "slice bounds out of range [:2]"):
		return "encData[:2]:slice-bounds:input-decodes-to-fewer-than-2-bytes"
	case strings.Contains(msg, "slice bounds out of range [2:"):
		return "encData[2:2+length]:slice-bounds:metadata-length-wraps-uint16"
	case strings.Contains(msg, "bad nonce length passed to Open"):
		return "aead.Open:bad-nonce-length:metadata-nonce-not-12-bytes"
	case strings.Contains(msg, "integer divide by zero"):
		return "scrypt.Key:integer-divide-by-zero:metadata-r-or-p-zero"
	case strings.Contains(msg, "slice bounds out of range [:-"):
		return "pbkdf2.Key:slice-bounds:metadata-keyLen-negative"
	case strings.Contains(msg, "makeslice"):
		return "scrypt.Key:makeslice:metadata-size-out-of-range"
	}
	return "other:" + digitsRe.ReplaceAllString(msg, "#")
}

func siteName(cipherName string) string {
	if cipherName == cScrypt {
		return "ScryptChacha20poly1305.Decrypt"
	}
	return "Sha256Xor.Decrypt"
}

// ---- small helpers ----

func sha256sum(b []byte) []byte { return walletref.Sha256(b) }

func bytesReader(b []byte) io.Reader { return bytes.NewReader(b) }

func lastLines(b []byte, n int) string {
	lines := strings.Split(strings.TrimSpace(string(b)), "\n")
	if len(lines) > n {
		lines = lines[:n] // the first lines of a Go crash name the fatal error
	}
	return strings.Join(lines, " | ")
}
