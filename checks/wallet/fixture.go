package main

import (
	"fmt"

	"github.com/skycoin/skycoin/src/cipher"
	"github.com/skycoin/skycoin/src/cipher/bip39"
	"github.com/skycoin/skycoin/src/cipher/crypto"
	"github.com/skycoin/skycoin/src/wallet"
	"github.com/skycoin/skycoin/src/wallet/bip44wallet"
	"github.com/skycoin/skycoin/src/wallet/collection"
	"github.com/skycoin/skycoin/src/wallet/deterministic"
	"github.com/skycoin/skycoin/src/wallet/xpubwallet"
)

// Fixed seeds of the wallet group.  Nothing here is random: mnemonics are derived from fixed entropy.
var detSeeds = []string{
	"verif deterministic seed alpha",
	"seed-β-ünïcode 0123456789",
	"x",
}

var bipEntropy = [][]byte{
	{0x00, 0x01, 0x02, 0x03, 0x04, 0x05, 0x06, 0x07, 0x08, 0x09, 0x0a, 0x0b, 0x0c, 0x0d, 0x0e, 0x0f},
	{0xff, 0xff, 0xff, 0xff, 0xff, 0xff, 0xff, 0xff, 0xff, 0xff, 0xff, 0xff, 0xff, 0xff, 0xff, 0xff},
	{0x7f, 0x7f, 0x7f, 0x7f, 0x7f, 0x7f, 0x7f, 0x7f, 0x7f, 0x7f, 0x7f, 0x7f, 0x7f, 0x7f, 0x7f, 0x7f,
		0x80, 0x80, 0x80, 0x80, 0x80, 0x80, 0x80, 0x80, 0x80, 0x80, 0x80, 0x80, 0x80, 0x80, 0x80, 0x80},
}

var bipPassphrases = []string{"", "Zq7 verif passphrase"}

func bipMnemonic(i int) string {
	m, err := bip39.NewMnemonic(bipEntropy[i])
	if err != nil {
		panic(err)
	}
	return m
}

// collectionKeys returns n fixed secret keys (sha256 of a label; all are valid scalars).
func collectionKeys(set, n int) []cipher.SecKey {
	var out []cipher.SecKey
	for i := 0; i < n; i++ {
		h := cipher.SumSHA256([]byte(fmt.Sprintf("verif collection key %d/%d", set, i)))
		sk, err := cipher.NewSecKey(h[:])
		if err != nil {
			panic(err)
		}
		if _, err := cipher.PubKeyFromSecKey(sk); err != nil {
			panic(err)
		}
		out = append(out, sk)
	}
	return out
}

const fixedTimestamp = 1500000000

func newDet(seed string, n int, ct crypto.CryptoType) *deterministic.Wallet {
	opts := []wallet.Option{wallet.OptionCryptoType(ct)}
	if n > 0 {
		opts = append(opts, wallet.OptionGenerateN(uint64(n)))
	}
	w, err := deterministic.NewWallet("verif-det.wlt", "verif det", seed, opts...)
	if err != nil {
		panic(fmt.Sprintf("fixture: deterministic.NewWallet: %v", err))
	}
	w.SetTimestamp(fixedTimestamp)
	return w
}

// newBip44 creates a bip44 wallet; the constructor always derives one external and one change address.
func newBip44(mnemonic, passphrase string, ct crypto.CryptoType) *bip44wallet.Wallet {
	w, err := bip44wallet.NewWallet("verif-bip44.wlt", "verif bip44", mnemonic, passphrase, wallet.OptionCryptoType(ct))
	if err != nil {
		panic(fmt.Sprintf("fixture: bip44wallet.NewWallet: %v", err))
	}
	w.SetTimestamp(fixedTimestamp)
	return w
}

func newXPub(xpub string) *xpubwallet.Wallet {
	w, err := xpubwallet.NewWallet("verif-xpub.wlt", "verif xpub", xpub)
	if err != nil {
		panic(fmt.Sprintf("fixture: xpubwallet.NewWallet: %v", err))
	}
	w.SetTimestamp(fixedTimestamp)
	return w
}

func newCollection(keys []cipher.SecKey, ct crypto.CryptoType) *collection.Wallet {
	opts := []wallet.Option{wallet.OptionCryptoType(ct)}
	if len(keys) > 0 {
		opts = append(opts, wallet.OptionCollectionPrivateKeys(keys))
	}
	w, err := collection.NewWallet("verif-coll.wlt", "verif collection", opts...)
	if err != nil {
		panic(fmt.Sprintf("fixture: collection.NewWallet: %v", err))
	}
	w.SetTimestamp(fixedTimestamp)
	return w
}

// verifState returns the complete canonical in-memory state of a wallet (overlay export VerifState).
func verifState(w wallet.Wallet) string {
	type st interface{ VerifState() string }
	if s, ok := w.(st); ok {
		return s.VerifState()
	}
	panic(fmt.Sprintf("wallet type %T has no VerifState export", w))
}

func must(err error) {
	if err != nil {
		panic(err)
	}
}

// keyFromLabel derives a fixed secret key from a label (sha256; retried with a suffix if not a valid scalar).
func keyFromLabel(label string) cipher.SecKey {
	for i := 0; ; i++ {
		h := cipher.SumSHA256([]byte(fmt.Sprintf("%s#%d", label, i)))
		if sk, err := cipher.NewSecKey(h[:]); err == nil {
			if _, err := cipher.PubKeyFromSecKey(sk); err == nil {
				return sk
			}
		}
	}
}
