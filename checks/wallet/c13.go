package main

import (
	"bytes"
	"fmt"
	"sort"
	"sync/atomic"

	"github.com/skycoin/skycoin/src/cipher"
	"github.com/skycoin/skycoin/src/cipher/crypto"
	"github.com/skycoin/skycoin/src/coin"
	"github.com/skycoin/skycoin/src/wallet"

	"verif/engine"
	"verif/model/walletref"
)

// C13 — wallet signing signs exactly the requested inputs.
//
// Full product: wallet kinds {deterministic(3), collection(3), bip44(2 external + 1 change), xpub (watch-only),
// deterministic encrypted} × n ∈ {1,2,3} inputs × every ownership assignment over {w.addr0, w.addr1, foreign}
// × every pre-signature state per input {null, valid signature of the owner, garbage non-null signature}
// × signIndexes ∈ {nil, []} ∪ every list of length 1..3 over {-1,0,1,2,3}.
// The thorough tier adds n = 4 and the index value 4.
//
// Oracle (transcribed from the property statement, not from SignTransaction): see c13Expect.
func init() { register("C13", "exploration", c13) }

type c13Wallet struct {
	Name      string
	W         wallet.Wallet
	Addr      [3]cipher.Address // w.addr0, w.addr1, foreign
	Key       [3]cipher.SecKey  // the keys that own them (known to the harness, not necessarily to the wallet)
	WatchOnly bool
	Encrypted bool
}

type c13Case struct {
	Wallet  string `json:"wallet"`
	N       int    `json:"inputs"`
	Owners  []int  `json:"owners"`    // per input: 0 = w.addr0, 1 = w.addr1, 2 = foreign
	Pre     []int  `json:"presigned"` // per input: 0 = null, 1 = valid signature, 2 = garbage signature
	Idx     []int  `json:"sign_indexes"`
	IdxNil  bool   `json:"sign_indexes_nil"`
	Expect  string `json:"model_expects"`
	Outcome string `json:"observed,omitempty"`
}

func c13Wallets() []c13Wallet {
	foreignKey := keyFromLabel("verif C13 foreign key")
	foreignAddr := cipher.MustAddressFromSecKey(foreignKey)
	entryKeys := func(es wallet.Entries, i, j int) ([3]cipher.Address, [3]cipher.SecKey) {
		return [3]cipher.Address{es[i].SkycoinAddress(), es[j].SkycoinAddress(), foreignAddr},
			[3]cipher.SecKey{es[i].Secret, es[j].Secret, foreignKey}
	}
	var out []c13Wallet

	det := newDet(detSeeds[0], 3, crypto.CryptoTypeSha256Xor)
	es, _ := det.GetEntries()
	a, k := entryKeys(es, 0, 1)
	out = append(out, c13Wallet{Name: "deterministic", W: det, Addr: a, Key: k})

	coll := newCollection(collectionKeys(0, 3), crypto.CryptoTypeSha256Xor)
	es, _ = coll.GetEntries()
	a, k = entryKeys(es, 0, 1)
	out = append(out, c13Wallet{Name: "collection", W: coll, Addr: a, Key: k})

	// bip44: w.addr0 = first external address, w.addr1 = first CHANGE address (so both chains are exercised)
	b44 := newBip44(bipMnemonic(0), bipPassphrases[1], crypto.CryptoTypeSha256Xor)
	_, err := b44.GenerateAddresses(wallet.OptionGenerateN(1))
	must(err)
	es, _ = b44.GetEntries()
	if len(es) != 3 || es[2].Change != 1 {
		panic(fmt.Sprintf("fixture: bip44 entries %v", es))
	}
	a, k = entryKeys(es, 0, 2)
	out = append(out, c13Wallet{Name: "bip44", W: b44, Addr: a, Key: k})

	// xpub wallet over the bip44 wallet's external chain: owns the addresses but holds no secret
	xp := newXPub(b44.VerifChainXPub(0, 0))
	_, err = xp.GenerateAddresses(wallet.OptionGenerateN(3))
	must(err)
	xes, _ := xp.GetEntries()
	ext, _ := b44.GetEntries(wallet.OptionExternal())
	if xes[0].Address != ext[0].Address || xes[1].Address != ext[1].Address {
		panic("fixture: xpub wallet does not match the bip44 external chain")
	}
	a, k = entryKeys(ext, 0, 1)
	out = append(out, c13Wallet{Name: "xpub", W: xp, Addr: a, Key: k, WatchOnly: true})

	// deterministic wallet, locked: addresses visible, secrets encrypted
	twin := newDet(detSeeds[1], 3, crypto.CryptoTypeSha256Xor)
	es, _ = twin.GetEntries()
	a, k = entryKeys(es, 0, 1)
	enc := twin.Clone()
	must(enc.Lock([]byte("pw")))
	if !enc.IsEncrypted() {
		panic("fixture: Lock did not encrypt")
	}
	out = append(out, c13Wallet{Name: "deterministic-encrypted", W: enc, Addr: a, Key: k, Encrypted: true})

	// bip44 wallet as a signing request meets it after a life in encrypted mode: locked, one external (#1) and one change (#0)
	// address derived WHILE locked (from the chain public keys), then unlocked (the secrets of those entries are filled in by
	// the unlock path, not by the generation path).  w.addr0 / w.addr1 are exactly those two entries; the expected keys come from
	// a never-encrypted twin wallet.
	{
		lk := newBip44(bipMnemonic(1), bipPassphrases[0], crypto.CryptoTypeSha256Xor)
		must(lk.Lock([]byte("pw")))
		_, err := lk.GenerateAddresses(wallet.OptionGenerateN(1))
		must(err)
		_, err = lk.GenerateAddresses(wallet.OptionGenerateN(1), wallet.OptionChange())
		must(err)
		ul, err := lk.Unlock([]byte("pw"))
		must(err)
		twin := newBip44(bipMnemonic(1), bipPassphrases[0], crypto.CryptoTypeSha256Xor)
		_, err = twin.GenerateAddresses(wallet.OptionGenerateN(1))
		must(err)
		_, err = twin.GenerateAddresses(wallet.OptionGenerateN(1), wallet.OptionChange())
		must(err)
		te, _ := twin.GetEntries()
		ue, _ := ul.GetEntries()
		var ext1, chg0 = -1, -1
		for i, e := range te {
			if e.Change == 0 && e.ChildNumber == 1 {
				ext1 = i
			}
			if e.Change == 1 && e.ChildNumber == 0 {
				chg0 = i
			}
		}
		if ext1 < 0 || chg0 < 0 || len(ue) != len(te) {
			panic(fmt.Sprintf("fixture: bip44 locked-generation wallet: twin %d entries, unlocked %d", len(te), len(ue)))
		}
		a, k = entryKeys(te, ext1, chg0)
		out = append(out, c13Wallet{Name: "bip44-unlocked-after-generating-while-locked", W: ul, Addr: a, Key: k})
	}

	// bip44 wallet (never encrypted) whose addresses came from SEVERAL generation calls: 2 more external addresses in one call,
	// then 2 more in another, then a peeked change address.  w.addr0 / w.addr1 are the last external address and the last change
	// address; the expected keys come from the independent BIP44 derivation.
	{
		mw := newBip44(bipMnemonic(2), bipPassphrases[0], crypto.CryptoTypeSha256Xor)
		for _, n := range []uint64{2, 2} {
			_, err := mw.GenerateAddresses(wallet.OptionGenerateN(n))
			must(err)
		}
		for i := 0; i < 2; i++ {
			_, err := mw.GenerateAddresses(wallet.OptionGenerateN(1), wallet.OptionChange())
			must(err)
		}
		// expected keys: the independent BIP39/32/44 derivation (m/44'/8000'/0'/chain/index), not the wallet's own entries
		me, _ := mw.GetEntries()
		nExt, nChg := 0, 0
		for _, e := range me {
			if e.Change == 0 {
				nExt++
			} else {
				nChg++
			}
		}
		refExt, err := walletref.Bip44Chain(bipMnemonic(2), bipPassphrases[0], 8000, 0, 0, nExt, false)
		must(err)
		refChg, err := walletref.Bip44Chain(bipMnemonic(2), bipPassphrases[0], 8000, 0, 1, nChg, false)
		must(err)
		if nExt < 5 || nChg < 2 {
			panic(fmt.Sprintf("fixture: bip44 multi-call wallet has %d external and %d change entries", nExt, nChg))
		}
		var k0, k1 cipher.SecKey
		copy(k0[:], refExt[nExt-1].Sec)
		copy(k1[:], refChg[nChg-1].Sec)
		a = [3]cipher.Address{cipher.MustDecodeBase58Address(refExt[nExt-1].Address), cipher.MustDecodeBase58Address(refChg[nChg-1].Address), foreignAddr}
		k = [3]cipher.SecKey{k0, k1, foreignKey}
		out = append(out, c13Wallet{Name: "bip44-addresses-generated-in-several-calls", W: mw, Addr: a, Key: k})
	}

	// collection wallet filled by IMPORT batches that repeat keys it already holds (before, between and after new keys): every
	// stored entry must keep its own secret.  w.addr0 / w.addr1 are two keys imported after a repeated one.
	{
		ks := collectionKeys(2, 5)
		cw := newCollection(ks[:1], crypto.CryptoTypeSha256Xor) // holds K0
		_, err := cw.GenerateAddresses(wallet.OptionCollectionPrivateKeys([]cipher.SecKey{ks[0], ks[1], ks[2]}))
		must(err)
		_, err = cw.GenerateAddresses(wallet.OptionCollectionPrivateKeys([]cipher.SecKey{ks[3], ks[1], ks[4], ks[0]}))
		must(err)
		ces, _ := cw.GetEntries()
		if len(ces) < 5 { // (the wallet may or may not keep repeated keys as separate entries)
			panic(fmt.Sprintf("fixture: imported collection wallet has %d entries", len(ces)))
		}
		fa := [3]cipher.Address{cipher.MustAddressFromSecKey(ks[2]), cipher.MustAddressFromSecKey(ks[4]), foreignAddr}
		fk := [3]cipher.SecKey{ks[2], ks[4], foreignKey}
		out = append(out, c13Wallet{Name: "collection-imported-with-repeated-keys", W: cw, Addr: fa, Key: fk})
	}
	return out
}

// c13Expect is the reference: does signing succeed, and which positions get signed.
func c13Expect(w *c13Wallet, n int, owners, pre []int, idx []int) (class string, targets []int) {
	if w.WatchOnly {
		return "fail:watch-only", nil
	}
	if w.Encrypted {
		return "fail:encrypted", nil
	}
	unsigned := 0
	for _, p := range pre {
		if p == 0 {
			unsigned++
		}
	}
	if unsigned == 0 {
		return "fail:fully-signed", nil
	}
	if len(idx) > n {
		return "fail:more-indexes-than-inputs", nil
	}
	seen := map[int]bool{}
	for _, i := range idx {
		if i < 0 || i >= n {
			return "fail:index-out-of-range", nil
		}
	}
	for _, i := range idx {
		if seen[i] {
			return "fail:duplicate-index", nil
		}
		seen[i] = true
	}
	if len(idx) > 0 {
		for _, i := range idx {
			if pre[i] != 0 {
				return "fail:already-signed", nil // an existing signature (valid or not) is never overwritten
			}
		}
		targets = append(targets, idx...)
		sort.Ints(targets)
	} else {
		for i, p := range pre {
			if p == 0 {
				targets = append(targets, i)
			}
		}
	}
	for _, i := range targets {
		if owners[i] == 2 {
			return "fail:missing-key", nil
		}
	}
	return "ok", targets
}

var c13Garbage = func() cipher.Sig {
	var s cipher.Sig
	for i := range s {
		s[i] = byte(0xA0 + i%7)
	}
	return s
}()

func c13IndexLists(alpha []int) [][]int {
	lists := [][]int{nil, {}}
	for _, a := range alpha {
		lists = append(lists, []int{a})
	}
	for _, a := range alpha {
		for _, b := range alpha {
			lists = append(lists, []int{a, b})
		}
	}
	for _, a := range alpha {
		for _, b := range alpha {
			for _, c := range alpha {
				lists = append(lists, []int{a, b, c})
			}
		}
	}
	return lists
}

func pow3(n int) int {
	r := 1
	for i := 0; i < n; i++ {
		r *= 3
	}
	return r
}

func digits3(v, n int) []int {
	d := make([]int, n)
	for i := 0; i < n; i++ {
		d[i] = v % 3
		v /= 3
	}
	return d
}

func c13(r *engine.Run) {
	wallets := c13Wallets()
	maxN := r.Pick(3, 4) // thorough adds 4-input transactions and the index value 4
	alpha := []int{-1, 0, 1, 2, 3}
	if r.Thorough() {
		alpha = append(alpha, 4)
	}
	lists := c13IndexLists(alpha)
	before := make([]string, len(wallets))
	for i := range wallets {
		before[i] = verifState(wallets[i].W)
	}
	dest := cipher.MustAddressFromSecKey(keyFromLabel("verif C13 destination"))

	type group struct {
		wi, n, owners int
	}
	var groups []group
	for wi := range wallets {
		for n := maxN; n >= 1; n-- {
			for o := 0; o < pow3(n); o++ {
				groups = append(groups, group{wi, n, o})
			}
		}
	}
	// big groups first
	sort.SliceStable(groups, func(i, j int) bool { return groups[i].n > groups[j].n })

	var evals, nontrivial, sigsVerified, sigsVerifiedModel int64
	outcomes := engine.NewCounter()
	perWallet := engine.NewCounter()
	var sampleOK, sampleFail, samplePartial atomic.Value

	engine.ParFor(len(groups), func(gi int) {
		g := groups[gi]
		w := &wallets[g.wi]
		n := g.n
		owners := digits3(g.owners, n)
		// transaction skeleton
		uxs := make([]coin.UxOut, n)
		base := coin.Transaction{}
		for i := 0; i < n; i++ {
			uxs[i] = coin.UxOut{
				Head: coin.UxHead{Time: uint64(100 + i), BkSeq: uint64(i + 1)},
				Body: coin.UxBody{
					SrcTransaction: cipher.SumSHA256([]byte(fmt.Sprintf("verif C13 src %d", i))),
					Address:        w.Addr[owners[i]],
					Coins:          uint64(i+1) * 1e6,
					Hours:          uint64(10 * (i + 1)),
				},
			}
			must(base.PushInput(uxs[i].Hash()))
		}
		must(base.PushOutput(dest, 1e6, 5))
		must(base.PushOutput(w.Addr[0], 2e5, 1))
		base.Sigs = make([]cipher.Sig, n)
		must(base.UpdateHeader())
		inner := base.InnerHash
		msg := make([]cipher.SHA256, n)
		valid := make([]cipher.Sig, n)
		for i := 0; i < n; i++ {
			msg[i] = cipher.AddSHA256(inner, base.In[i])
			valid[i] = cipher.MustSignHash(msg[i], w.Key[owners[i]])
		}
		uxSnapshot := fmt.Sprint(uxs)

		for pv := 0; pv < pow3(n); pv++ {
			pre := digits3(pv, n)
			for _, idx := range lists {
				txn := base
				txn.In = append([]cipher.SHA256{}, base.In...)
				txn.Out = append([]coin.TransactionOutput{}, base.Out...)
				txn.Sigs = make([]cipher.Sig, n)
				for i, p := range pre {
					switch p {
					case 1:
						txn.Sigs[i] = valid[i]
					case 2:
						txn.Sigs[i] = c13Garbage
					}
				}
				origBytes, err := txn.Serialize()
				must(err)
				orig := txn // header fields by value
				origSigs := append([]cipher.Sig{}, txn.Sigs...)
				var idxArg []int
				if idx != nil {
					idxArg = append([]int{}, idx...)
				}
				class, targets := c13Expect(w, n, owners, pre, idx)
				cs := c13Case{Wallet: w.Name, N: n, Owners: owners, Pre: pre, Idx: idx, IdxNil: idx == nil, Expect: class}
				atomic.AddInt64(&evals, 1)
				outcomes.Add(class)
				perWallet.Add(w.Name + ":" + class)
				if class != "fail:watch-only" && class != "fail:encrypted" && (class != "ok" || len(idx) > 0 || len(targets) < n) {
					atomic.AddInt64(&nontrivial, 1)
				}

				var signed *coin.Transaction
				var serr error
				if pan, pmsg := engine.Catch(func() { signed, serr = wallet.SignTransaction(w.W, &txn, idxArg, uxs) }); pan {
					cs.Outcome = "panic"
					r.Failf("SignTransaction:panic:"+class, cs, "%s n=%d owners=%v presigned=%v signIndexes=%v: panic %s", w.Name, n, owners, pre, idx, pmsg)
					continue
				}
				// the caller's objects are never touched, success or not
				nowBytes, err := txn.Serialize()
				if err != nil || !bytes.Equal(nowBytes, origBytes) || txn.InnerHash != orig.InnerHash || txn.Length != orig.Length || txn.Type != orig.Type ||
					len(txn.Sigs) != n || len(txn.In) != n {
					sig := "SignTransaction:caller-transaction-modified:on-success"
					if serr != nil {
						sig = "SignTransaction:caller-transaction-modified:on-failure(partial-effect)"
					}
					cs.Outcome = "caller txn changed"
					r.Failf(sig, cs, "%s n=%d owners=%v presigned=%v signIndexes=%v (err=%v): the caller's transaction changed: sigs before %v after %v",
						w.Name, n, owners, pre, idx, serr, sigNullMap(origSigs), sigNullMap(txn.Sigs))
				}
				if fmt.Sprint(uxs) != uxSnapshot || fmt.Sprint(idxArg) != fmt.Sprint(idx) {
					r.Failf("SignTransaction:caller-arguments-modified", cs, "%s: uxOuts or signIndexes changed by the call", w.Name)
				}
				if (serr == nil) != (class == "ok") {
					if serr == nil {
						cs.Outcome = "signed"
						r.Failf("SignTransaction:signs-when-it-must-refuse:"+class, cs, "%s n=%d owners=%v presigned=%v signIndexes=%v: succeeded, reference says %s; result sigs %v",
							w.Name, n, owners, pre, idx, class, sigNullMap(signed.Sigs))
					} else {
						cs.Outcome = "error: " + serr.Error()
						r.Failf("SignTransaction:refuses-a-signable-request", cs, "%s n=%d owners=%v presigned=%v signIndexes=%v: error %q, reference says the wallet can sign inputs %v",
							w.Name, n, owners, pre, idx, serr, targets)
					}
					continue
				}
				if serr != nil {
					if signed != nil {
						r.Failf("SignTransaction:returns-transaction-with-error", cs, "%s: non-nil transaction returned together with error %v", w.Name, serr)
					}
					if sampleFail.Load() == nil && class == "fail:missing-key" {
						sampleFail.Store(cs)
					}
					continue
				}
				// success: exactly the targets changed from null to a verifying signature, everything else identical
				if signed == nil {
					r.Failf("SignTransaction:nil-result-without-error", cs, "%s: nil transaction and nil error", w.Name)
					continue
				}
				if signed == &txn {
					r.Failf("SignTransaction:returns-callers-object", cs, "%s: the result aliases the caller's transaction", w.Name)
				}
				bad := ""
				if len(signed.In) != n || len(signed.Sigs) != n || len(signed.Out) != len(base.Out) {
					bad = "lengths changed"
				} else {
					for i := 0; i < n; i++ {
						if signed.In[i] != base.In[i] {
							bad = fmt.Sprintf("input %d changed", i)
						}
					}
					for i := range base.Out {
						if signed.Out[i] != base.Out[i] {
							bad = fmt.Sprintf("output %d changed", i)
						}
					}
					if signed.InnerHash != inner || signed.HashInner() != inner {
						bad = "inner hash changed"
					}
					if signed.Length != orig.Length || signed.Type != orig.Type {
						bad = "header length/type changed"
					}
				}
				if bad != "" {
					r.Failf("SignTransaction:changes-transaction-body", cs, "%s n=%d owners=%v presigned=%v signIndexes=%v: %s", w.Name, n, owners, pre, idx, bad)
					continue
				}
				isTarget := make([]bool, n)
				for _, t := range targets {
					isTarget[t] = true
				}
				for i := 0; i < n; i++ {
					if !isTarget[i] {
						if signed.Sigs[i] != origSigs[i] {
							sig := "SignTransaction:signs-an-input-that-was-not-requested"
							if pre[i] != 0 {
								sig = "SignTransaction:overwrites-existing-signature"
							}
							r.Failf(sig, cs, "%s n=%d owners=%v presigned=%v signIndexes=%v: signature %d changed (was null: %v) although only %v were to be signed",
								w.Name, n, owners, pre, idx, i, origSigs[i].Null(), targets)
						}
						continue
					}
					if signed.Sigs[i].Null() {
						r.Failf("SignTransaction:requested-input-left-unsigned", cs, "%s n=%d owners=%v presigned=%v signIndexes=%v: input %d still unsigned", w.Name, n, owners, pre, idx, i)
						continue
					}
					if err := cipher.VerifyAddressSignedHash(w.Addr[owners[i]], signed.Sigs[i], msg[i]); err != nil {
						r.Failf("SignTransaction:signature-does-not-verify-for-owner", cs, "%s n=%d owners=%v presigned=%v signIndexes=%v: signature %d does not verify against %s: %v",
							w.Name, n, owners, pre, idx, i, w.Addr[owners[i]], err)
						continue
					}
					atomic.AddInt64(&sigsVerified, 1)
					// independent verification (big-integer ECDSA public key recovery) on the sub-product signIndexes ∈ {nil, []}
					if len(idx) == 0 {
						pub, err := walletref.RecoverCompact(signed.Sigs[i][:], msg[i][:])
						if err != nil || walletref.Address(pub) != w.Addr[owners[i]].String() || !walletref.VerifyECDSA(pub, signed.Sigs[i][:], msg[i][:]) {
							r.Failf("SignTransaction:signature-rejected-by-reference-ecdsa", cs, "%s: signature %d: reference recovery gives %x (%v), owner %s", w.Name, i, pub, err, w.Addr[owners[i]])
						}
						atomic.AddInt64(&sigsVerifiedModel, 1)
					}
				}
				if len(targets) < n && samplePartial.Load() == nil && len(idx) > 0 {
					samplePartial.Store(cs)
				}
				if sampleOK.Load() == nil {
					sampleOK.Store(cs)
				}
			}
		}
	})

	for i := range wallets {
		if after := verifState(wallets[i].W); after != before[i] {
			r.Failf("SignTransaction:wallet-state-modified", wallets[i].Name, "wallet %s changed while signing:\nbefore %s\nafter  %s", wallets[i].Name, before[i], after)
		}
	}
	want := []string{"ok", "fail:watch-only", "fail:encrypted", "fail:fully-signed", "fail:more-indexes-than-inputs", "fail:index-out-of-range",
		"fail:duplicate-index", "fail:already-signed", "fail:missing-key"}
	for _, c := range want {
		if outcomes.Get(c) == 0 {
			r.Broken("vacuous: outcome class %q never produced by the reference model (%v)", c, outcomes.Map())
		}
	}
	for _, wn := range []string{"deterministic", "collection", "bip44"} {
		if perWallet.Get(wn+":ok") == 0 || perWallet.Get(wn+":fail:missing-key") == 0 {
			r.Broken("vacuous: wallet %s has no success or no missing-key case", wn)
		}
	}
	if sigsVerified == 0 || sigsVerifiedModel == 0 {
		r.Broken("vacuous: no signature was verified")
	}
	samples := []interface{}{}
	for _, s := range []atomic.Value{sampleOK, samplePartial, sampleFail} {
		if v := s.Load(); v != nil {
			samples = append(samples, v)
		}
	}
	r.Assumptions = append(r.Assumptions,
		fmt.Sprintf("transactions have 1..%d inputs and two outputs; ", maxN)+"owners are two wallet addresses and one foreign address; bip44 uses its first external and first change address",
		"signatures are checked with cipher.VerifyAddressSignedHash on every case and additionally with the big-integer reference ECDSA recovery (model/walletref) on the sub-product signIndexes ∈ {nil, []}",
		"ECDSA nonces are random: only relations (verifies / unchanged / null) are compared, never signature bytes",
		"observed at wallet.SignTransaction; Visor.WalletSignTransaction (service locking, unconfirmed-spend checks) is not part of this check")
	r.Finish(engine.Coverage{
		"evaluations":                      evals,
		"distinct_nontrivial":              nontrivial,
		"rule":                             "full product wallet kind × n × owners × pre-signature state × signIndexes (every tuple distinct by construction); non-trivial = the reference model refuses for a reason other than wallet kind (index, duplicate, already-signed, fully-signed, missing key), or it signs a strict subset / an explicitly indexed set",
		"samples":                          samples,
		"exhaustive":                       true,
		"outcome_histogram":                outcomes.Map(),
		"outcome_histogram_per_wallet":     perWallet.Map(),
		"signatures_verified":              sigsVerified,
		"signatures_verified_by_reference": sigsVerifiedModel,
		"alphabet": map[string]interface{}{"wallet_kinds": len(wallets), "max_inputs": maxN, "owners_per_input": 3, "presign_states_per_input": 3,
			"sign_index_lists": len(lists), "index_values": alpha},
	})
}

func sigNullMap(s []cipher.Sig) string {
	out := make([]byte, len(s))
	for i, x := range s {
		switch {
		case x.Null():
			out[i] = '-'
		case x == c13Garbage:
			out[i] = 'g'
		default:
			out[i] = 'S'
		}
	}
	return string(out)
}
