package main

import (
	"bufio"
	"encoding/json"
	"os"
	"time"

	"github.com/skycoin/skycoin/src/cipher/encrypt"

	"verif/engine"
)

// Sandboxed Decrypt: every Decrypt call of C18 part (b) runs in a worker subprocess (memory ulimit,
// deadline).  A worker gets a batch of cases on stdin (one JSON object per line) and answers one line
// per case; a Go panic is recovered and reported ("panic"), anything that kills the process (fatal
// runtime error, out of memory, stack overflow) is seen by the parent as a missing answer.

type decReq struct {
	ID     int    `json:"id"`
	Cipher string `json:"cipher"` // "scrypt-chacha20poly1305" | "sha256-xor"
	Text   []byte `json:"text"`   // the ciphertext exactly as handed to Decrypt
	Pw     []byte `json:"pw"`
}

type decRes struct {
	ID    int    `json:"id"`
	Res   string `json:"res"` // ok | err | panic | died | timeout
	Plain []byte `json:"plain,omitempty"`
	Msg   string `json:"msg,omitempty"`
}

func init() { workers["decrypt"] = decryptWorker }

func realDecrypt(cipherName string, text, pw []byte) (res decRes) {
	var plain []byte
	var err error
	pan, msg := engine.Catch(func() {
		switch cipherName {
		case "scrypt-chacha20poly1305":
			plain, err = encrypt.ScryptChacha20poly1305{}.Decrypt(text, pw)
		case "sha256-xor":
			plain, err = encrypt.Sha256Xor{}.Decrypt(text, pw)
		default:
			panic("verif: unknown cipher " + cipherName)
		}
	})
	switch {
	case pan:
		return decRes{Res: "panic", Msg: msg}
	case err != nil:
		return decRes{Res: "err", Msg: err.Error()}
	default:
		if plain == nil {
			plain = []byte{}
		}
		return decRes{Res: "ok", Plain: plain}
	}
}

func decryptWorker(args []string) {
	in := bufio.NewReaderSize(os.Stdin, 1<<20)
	dec := json.NewDecoder(in)
	for {
		var q decReq
		if err := dec.Decode(&q); err != nil {
			return
		}
		res := realDecrypt(q.Cipher, q.Text, q.Pw)
		res.ID = q.ID
		b, _ := json.Marshal(res)
		os.Stdout.Write(append(b, '\n')) // unbuffered: an answer written is an answer seen
	}
}

// runDecryptBatch runs the cases through workers and returns one result per request (same order).
// If a worker dies or times out, the first unanswered case is charged with it and the rest is resumed
// in a fresh worker.
func runDecryptBatch(reqs []decReq, vmemKiB int, deadline time.Duration) []decRes {
	out := make([]decRes, len(reqs))
	start := 0
	for start < len(reqs) {
		var stdin []byte
		for _, q := range reqs[start:] {
			b, _ := json.Marshal(q)
			stdin = append(append(stdin, b...), '\n')
		}
		wr := engine.RunWorker(stdin, vmemKiB, deadline, "decrypt")
		n := 0
		sc := bufio.NewScanner(bytesReader(wr.Stdout))
		sc.Buffer(make([]byte, 1<<20), 1<<26)
		for sc.Scan() {
			var res decRes
			if err := json.Unmarshal(sc.Bytes(), &res); err != nil {
				break // torn last line of a dying worker
			}
			if start+n >= len(reqs) || res.ID != reqs[start+n].ID {
				break
			}
			out[start+n] = res
			n++
		}
		start += n
		if start >= len(reqs) {
			break
		}
		// the worker stopped before answering reqs[start]
		res := decRes{ID: reqs[start].ID, Res: "died", Msg: lastLines(wr.Stderr, 6)}
		if wr.TimedOut {
			res.Res = "timeout"
		}
		out[start] = res
		start++
	}
	return out
}
