package main

import (
	"bytes"
	"fmt"
	"os"
	"path/filepath"

	"github.com/skycoin/skycoin/src/cipher"
	"github.com/skycoin/skycoin/src/cipher/bip44"
	"github.com/skycoin/skycoin/src/cipher/crypto"
	"github.com/skycoin/skycoin/src/wallet"

	"verif/engine"
)

// C18 part S — the locked wallet as the wallet SERVICE keeps it.
//
// The node never calls Lock/Unlock on a wallet object of its own: it goes through wallet.Service, which decides per wallet type
// whether an operation on an encrypted wallet needs the password (GuardUpdate: unlock, change, lock again) or may work on the
// locked wallet.  Here every wallet type that can be encrypted is created encrypted in a real Service (files on disk), next to
// a twin created from the same secrets WITHOUT encryption in a second Service, and the same address-adding operations are
// applied to both.  After every operation:
//   - the encrypted wallet's file holds none of the twin's secrets (seed, last seed, secret keys; raw / hex / base64),
//   - the file, loaded and unlocked with the password, has exactly the twin's entries (addresses, public and secret keys),
//   - every other password is refused by Unlock,
//   - an operation that needs the secrets is refused with a wrong password, and then changes nothing on disk.
func c18Service(r *engine.Run, oc *engine.Counter) map[string]interface{} {
	root, err := os.MkdirTemp(engine.Scratch(), "c18svc")
	if err != nil {
		r.Broken("scratch: %v", err)
		return nil
	}
	defer os.RemoveAll(root)
	const pw = "service-password"
	cts := []crypto.CryptoType{crypto.CryptoTypeSha256Xor}
	if r.Thorough() {
		cts = append(cts, crypto.CryptoTypeScryptChacha20poly1305Insecure)
	}
	type step struct {
		name string
		pw   string // "right", "wrong", "none"
	}
	plans := [][]step{
		{{"add", "right"}},
		{{"add", "right"}, {"add", "right"}},
		{{"add", "wrong"}},
		{{"add", "none"}},
		{{"add", "right"}, {"add", "wrong"}, {"add", "right"}},
	}
	keys := collectionKeys(7, 6)
	evals, caseNo := 0, 0
	for _, ct := range cts {
		for _, typ := range []string{wallet.WalletTypeDeterministic, wallet.WalletTypeBip44, wallet.WalletTypeCollection} {
			for pi, plan := range plans {
				caseNo++
				mk := func(sub string) (*wallet.Service, string) {
					cfg := wallet.NewConfig()
					cfg.WalletDir = filepath.Join(root, fmt.Sprint(caseNo), sub)
					cfg.EnableWalletAPI = true
					cfg.EnableSeedAPI = true
					cfg.CryptoType = ct
					bc := bip44.CoinTypeSkycoin
					cfg.Bip44Coin = &bc
					s, err := wallet.NewService(cfg)
					if err != nil {
						panic("harness: wallet.NewService: " + err.Error())
					}
					return s, cfg.WalletDir
				}
				enc, encDir := mk("encrypted")
				twin, _ := mk("twin")
				opts := wallet.Options{Type: typ, Label: "s", CryptoType: ct}
				switch typ {
				case wallet.WalletTypeDeterministic:
					opts.Seed = detSeeds[0]
				case wallet.WalletTypeBip44:
					opts.Seed, opts.SeedPassphrase = bipMnemonic(1), bipPassphrases[1]
				case wallet.WalletTypeCollection:
					opts.CollectionPrivateKeys = keys[:2]
				}
				const name = "svc.wlt"
				if _, err := twin.CreateWallet(name, opts); err != nil {
					r.Broken("C18 part S: twin CreateWallet(%s): %v", typ, err)
					continue
				}
				eo := opts
				eo.Encrypt, eo.Password = true, []byte(pw)
				if _, err := enc.CreateWallet(name, eo); err != nil {
					r.Broken("C18 part S: CreateWallet(%s, encrypted): %v", typ, err)
					continue
				}
				nextKey := 2
				var history []string
				for si, st := range plan {
					cs := map[string]interface{}{"wallet_type": typ, "crypto_type": string(ct), "plan": pi, "operations": append(append([]string{}, history...), st.name+":"+st.pw)}
					var addOpts []wallet.Option
					if typ == wallet.WalletTypeCollection {
						addOpts = []wallet.Option{wallet.OptionCollectionPrivateKeys([]cipher.SecKey{keys[nextKey]})}
					} else {
						addOpts = []wallet.Option{wallet.OptionGenerateN(1)}
					}
					var pass []byte
					switch st.pw {
					case "right":
						pass = []byte(pw)
					case "wrong":
						pass = []byte(pw + "x")
					}
					fileBefore, _ := os.ReadFile(filepath.Join(encDir, name))
					var opErr error
					pan, msg := engine.Catch(func() { _, opErr = enc.NewAddresses(name, pass, addOpts...) })
					evals++
					history = append(history, st.name+":"+st.pw)
					what := fmt.Sprintf("%s wallet encrypted with %s in a wallet.Service, after %v", typ, ct, history)
					if pan {
						r.Failf("Service.NewAddresses:panic:"+typ, cs, "%s: panic: %s", what, msg)
						break
					}
					needsSecrets := typ != wallet.WalletTypeBip44 // a bip44 wallet derives external addresses from the account's public key
					switch {
					case st.pw == "right" && opErr != nil:
						r.Failf("Service.NewAddresses:refuses-the-right-password:"+typ, cs, "%s: %v", what, opErr)
					case st.pw != "right" && needsSecrets && opErr == nil:
						r.Failf("Service.NewAddresses:accepts-another-password:"+typ, cs, "%s: the operation needs the wallet's secrets and succeeded with password %q", what, pass)
					}
					oc.Add(fmt.Sprintf("service:%s:%s:%s:err=%v", typ, st.name, st.pw, opErr != nil))
					if opErr == nil {
						if _, err := twin.NewAddresses(name, nil, addOpts...); err != nil {
							r.Broken("C18 part S: twin NewAddresses(%s): %v", typ, err)
							break
						}
						nextKey++
					}
					fileAfter, err := os.ReadFile(filepath.Join(encDir, name))
					if err != nil {
						r.Failf("Service.NewAddresses:wallet-file-gone:"+typ, cs, "%s: %v", what, err)
						break
					}
					if opErr != nil && !bytes.Equal(fileBefore, fileAfter) {
						r.Failf("Service.NewAddresses:failed-operation-changes-the-file:"+typ, cs, "%s: the operation failed with %q but the wallet file changed", what, opErr)
					}
					tw, err := twin.GetWallet(name)
					if err != nil {
						r.Broken("C18 part S: twin GetWallet: %v", err)
						break
					}
					// 1. no secret of the twin in the encrypted wallet's file
					leak := false
					for _, hs := range haystacks(fileAfter) {
						for _, n := range secretNeedles(tw) {
							if bytes.Contains(hs, n.Val) {
								r.Failf("Service:locked-wallet-file-contains-secret:"+typ, cs, "%s: the file of the locked wallet contains %s", what, n.What)
								leak = true
								break
							}
						}
						if leak {
							break
						}
					}
					// 2. the file unlocks with the password to exactly the twin
					lw, err := wallet.Load(filepath.Join(encDir, name))
					if err != nil {
						r.Failf("Service:locked-wallet-file-does-not-load:"+typ, cs, "%s: %v", what, err)
						break
					}
					var uw wallet.Wallet
					var uerr error
					if pan, msg := engine.Catch(func() { uw, uerr = lw.Unlock([]byte(pw)) }); pan {
						r.Failf("Service:unlock-panics:"+typ, cs, "%s: Unlock with the password panics: %s", what, msg)
						break
					}
					if uerr != nil {
						r.Failf("Service:locked-wallet-no-longer-unlocks:"+typ, cs, "%s: Unlock with the wallet's own password fails: %v", what, uerr)
					} else if d := c18TwinDiff(uw, tw); d != "" {
						r.Failf("Service:unlocked-wallet-differs-from-unencrypted-twin:"+typ, cs, "%s: %s", what, d)
					}
					// 3. other passwords are refused
					for _, bad := range []string{"", pw + "x", "Service-password"} {
						var bw wallet.Wallet
						var berr error
						if pan, msg := engine.Catch(func() { bw, berr = lw.Unlock([]byte(bad)) }); pan {
							r.Failf("Service:unlock-panics:"+typ, cs, "%s: Unlock(%q) panics: %s", what, bad, msg)
						} else if berr == nil {
							r.Failf("Service:unlock-accepts-another-password:"+typ, cs, "%s: Unlock(%q) succeeds (wallet %v)", what, bad, bw != nil)
						}
					}
					_ = si
				}
			}
		}
	}
	return map[string]interface{}{
		"what":         "wallet types × cipher × operation plans in a real wallet.Service next to an unencrypted twin: file free of the twin's secrets, unlocks to the twin, other passwords refused, secret-needing operations refused with another password and then without effect",
		"cases":        caseNo,
		"operations":   evals,
		"wallet_types": 3,
		"ciphers":      len(cts),
	}
}

// c18TwinDiff compares what the property names: seed, seed passphrase, last seed, and the entries (address, public, secret key).
func c18TwinDiff(got, want wallet.Wallet) string {
	if got.Seed() != want.Seed() {
		return "seed differs"
	}
	if got.SeedPassphrase() != want.SeedPassphrase() {
		return "seed passphrase differs"
	}
	if got.LastSeed() != want.LastSeed() {
		return "last seed differs"
	}
	optss := [][]wallet.Option{nil}
	if got.Type() == wallet.WalletTypeBip44 {
		optss = [][]wallet.Option{{wallet.OptionExternal()}, {wallet.OptionChange()}}
	}
	for ci, o := range optss {
		g, err := got.GetEntries(o...)
		if err != nil {
			return "GetEntries: " + err.Error()
		}
		w, err := want.GetEntries(o...)
		if err != nil {
			return "twin GetEntries: " + err.Error()
		}
		if len(g) != len(w) {
			return fmt.Sprintf("chain %d: %d entries, the twin has %d", ci, len(g), len(w))
		}
		for i := range g {
			if g[i].Address.String() != w[i].Address.String() || g[i].Public != w[i].Public {
				return fmt.Sprintf("chain %d entry %d: address/public key differs (%s vs %s)", ci, i, g[i].Address, w[i].Address)
			}
			if g[i].Secret != w[i].Secret {
				return fmt.Sprintf("chain %d entry %d (%s): secret key differs from the twin's", ci, i, g[i].Address)
			}
		}
	}
	return ""
}
