package main

import (
	"bytes"
	"encoding/base64"
	"encoding/hex"
	"encoding/json"
	"fmt"
	"regexp"
	"sort"
	"strings"
	"sync"
	"time"

	"github.com/skycoin/skycoin/src/cipher/crypto"
	"github.com/skycoin/skycoin/src/wallet"
	"github.com/skycoin/skycoin/src/wallet/bip44wallet"
	"github.com/skycoin/skycoin/src/wallet/collection"
	"github.com/skycoin/skycoin/src/wallet/deterministic"

	"verif/engine"
)

// C18 — wallet encryption protects secrets and decryption is robust.
//
// (a) wallets {deterministic, bip44 with passphrase, collection} × passwords × ciphers {sha256-xor,
//
//	scrypt-chacha20poly1305 with N = 16 (harness registry entry, same code), the registered N = 2^15 "insecure" entry for
//	one password per wallet kind, the default N = 2^20 for 2 (quick) / 6 (thorough) Lock/Unlock pairs}:
//	locked serialisation contains no secret in raw / hex / HEX / base64 form; unlock(same) restores the complete
//	state; unlock(other) is refused and changes nothing; failed Lock changes nothing.
//
// (b) Decrypt of both ciphers over the mutation alphabet of c18_cases.go × passwords {right, wrong, empty}, every call in a
//
//	sandboxed worker: the outcome must be the reference model's plaintext or an error; a panic / death / timeout is a violation.
func init() { register("C18", "exploration", c18) }

type c18WalletKind struct {
	Name string
	New  func(ct crypto.CryptoType) wallet.Wallet
	Load func(data []byte) (wallet.Wallet, error)
}

func c18Kinds() []c18WalletKind {
	return []c18WalletKind{
		{"deterministic", func(ct crypto.CryptoType) wallet.Wallet { return newDet(detSeeds[0], 3, ct) },
			func(d []byte) (wallet.Wallet, error) { return deterministic.Loader{}.Load(d) }},
		{"bip44+passphrase", func(ct crypto.CryptoType) wallet.Wallet {
			w := newBip44(bipMnemonic(2), bipPassphrases[1], ct)
			_, err := w.GenerateAddresses(wallet.OptionGenerateN(2))
			must(err)
			_, err = w.GenerateAddresses(wallet.OptionGenerateN(1), wallet.OptionChange())
			must(err)
			return w
		}, func(d []byte) (wallet.Wallet, error) { return bip44wallet.Loader{}.Load(d) }},
		{"collection", func(ct crypto.CryptoType) wallet.Wallet { return newCollection(collectionKeys(1, 3), ct) },
			func(d []byte) (wallet.Wallet, error) { return collection.Loader{}.Load(d) }},
	}
}

// c18LegacyKind: a deterministic wallet as an old node wrote it - no cryptoType in its metadata.  Locking such a wallet takes
// the compatibility branch (default cipher); it must of course unlock again.
func c18LegacyKind() c18WalletKind {
	load := func(d []byte) (wallet.Wallet, error) { return deterministic.Loader{}.Load(d) }
	return c18WalletKind{"deterministic-legacy-file-without-cryptoType", func(crypto.CryptoType) wallet.Wallet {
		w := newDet(detSeeds[1], 3, crypto.CryptoTypeSha256Xor)
		ser, err := w.Serialize()
		must(err)
		var doc map[string]interface{}
		must(json.Unmarshal(ser, &doc))
		meta, ok := doc["meta"].(map[string]interface{})
		if !ok {
			panic("fixture: serialised wallet has no meta object")
		}
		if _, ok := meta["cryptoType"]; !ok {
			panic("fixture: serialised wallet has no cryptoType to remove")
		}
		delete(meta, "cryptoType")
		b, err := json.Marshal(doc)
		must(err)
		lw, err := load(b)
		must(err)
		return lw
	}, load}
}

var reCryptoType = regexp.MustCompile(`cryptoType="[^"]*";?`)

type needle struct {
	What string
	Val  []byte
}

// secretNeedles lists every secret of an unlocked wallet in raw, hex, HEX and base64 form.
func secretNeedles(w wallet.Wallet) []needle {
	var raw []needle
	add := func(what string, v []byte) {
		if len(v) >= 8 { // shorter strings occur by chance
			raw = append(raw, needle{what, v})
		}
	}
	add("seed", []byte(w.Seed()))
	add("seedPassphrase", []byte(w.SeedPassphrase()))
	if ls := w.LastSeed(); ls != "" {
		add("lastSeed(hex string)", []byte(ls))
		if b, err := hex.DecodeString(ls); err == nil {
			add("lastSeed(bytes)", b)
		}
	}
	var entries wallet.Entries
	if w.Type() == wallet.WalletTypeBip44 {
		e1, err := w.GetEntries(wallet.OptionExternal())
		must(err)
		e2, err := w.GetEntries(wallet.OptionChange())
		must(err)
		entries = append(e1, e2...)
		bw := w.(*bip44wallet.Wallet)
		add("bip44 account xprv", []byte(bw.VerifAccountPrivateKey(0)))
		add("bip44 account private key bytes", bw.VerifAccountPrivateKeyBytes(0))
	} else {
		var err error
		entries, err = w.GetEntries()
		must(err)
	}
	for i, e := range entries {
		if !e.Secret.Null() {
			add(fmt.Sprintf("secret key of entry %d", i), append([]byte{}, e.Secret[:]...))
		}
	}
	var out []needle
	for _, n := range raw {
		out = append(out, n,
			needle{n.What + " [hex]", []byte(hex.EncodeToString(n.Val))},
			needle{n.What + " [HEX]", []byte(strings.ToUpper(hex.EncodeToString(n.Val)))},
			needle{n.What + " [base64]", []byte(base64.StdEncoding.EncodeToString(n.Val))})
	}
	return out
}

// haystacks: the serialised bytes and, in addition, every JSON string value unescaped (so an escaped
// secret cannot hide), concatenated.
func haystacks(ser []byte) [][]byte {
	var v interface{}
	var flat bytes.Buffer
	if json.Unmarshal(ser, &v) == nil {
		var walk func(x interface{})
		walk = func(x interface{}) {
			switch t := x.(type) {
			case string:
				flat.WriteString(t)
				flat.WriteByte('\n')
			case []interface{}:
				for _, y := range t {
					walk(y)
				}
			case map[string]interface{}:
				keys := make([]string, 0, len(t))
				for k := range t {
					keys = append(keys, k)
				}
				sort.Strings(keys)
				for _, k := range keys {
					flat.WriteString(k)
					flat.WriteByte('\n')
					walk(t[k])
				}
			}
		}
		walk(v)
	}
	return [][]byte{ser, flat.Bytes()}
}

type c18aCase struct {
	Wallet   string `json:"wallet"`
	Cipher   string `json:"cipher"`
	Password string `json:"password"`
	Step     string `json:"step"`
	Other    string `json:"other_password,omitempty"`
}

var c18Passwords = []string{"p", "pw2", string(fixedBytes("verif C18 wallet password", 64)), "päss", string(fixedBytes("verif C18 long wallet password", 80))}

func wrongPasswords(pw string) []string {
	set := map[string]bool{}
	var out []string
	add := func(s string) {
		if s != pw && s != "" && !set[s] {
			set[s] = true
			out = append(out, s)
		}
	}
	for _, p := range c18Passwords {
		add(p)
	}
	add(pw + "\x00")
	add(pw + " ")
	add(pw[:len(pw)-1])
	add(strings.ToUpper(pw))
	add(pw + pw)
	if len(pw) > 64 {
		// HMAC replaces a key longer than its block (64 bytes for SHA-256) by its hash
		add(string(sha256sum([]byte(pw))))
	}
	return out
}

// c18Mode: nWrong limits the number of wrong passwords tried (0 = all); heavy = seconds and 1 GiB per call.
type c18Mode struct {
	nWrong int
	heavy  bool
	legacy bool // wallet loaded from a file without cryptoType: metadata field left out of the restored-state comparison
}

// c18Secrets runs part (a) for one (wallet kind, cipher, password).
func c18Secrets(r *engine.Run, k c18WalletKind, ct crypto.CryptoType, pw string, mode c18Mode, oc *engine.Counter, distinct *engine.Set) {
	cs := c18aCase{Wallet: k.Name, Cipher: string(ct), Password: pw}
	fail := func(sig, step, format string, a ...interface{}) {
		c := cs
		c.Step = step
		r.Failf(sig, c, "%s/%s/password %q: %s", k.Name, ct, pw, fmt.Sprintf(format, a...))
	}
	orig := k.New(ct)
	origState := verifState(orig)
	origSer, err := orig.Serialize()
	must(err)
	needles := secretNeedles(orig)
	if len(needles) < 12 {
		r.Broken("vacuous: only %d secret needles for wallet %s", len(needles), k.Name)
	}
	// sanity: the needles ARE visible in the unlocked serialisation (otherwise the search proves nothing)
	vis := 0
	for _, n := range needles {
		for _, h := range haystacks(origSer) {
			if bytes.Contains(h, n.Val) {
				vis++
				break
			}
		}
	}
	if vis < len(needles)/8 {
		r.Broken("vacuous: only %d of %d secret forms are visible in the UNLOCKED serialisation of %s", vis, len(needles), k.Name)
	}

	// failed Lock (empty password) must not touch the wallet
	w := orig.Clone()
	if err := w.Lock(nil); err == nil {
		fail("Wallet.Lock:accepts-empty-password", "lock(empty)", "Lock(nil) succeeded")
	} else if verifState(w) != origState {
		fail("Wallet.Lock:failed-lock-changes-wallet", "lock(empty)", "Lock(nil) failed (%v) but the wallet changed", err)
	}
	oc.Add("lock-empty-password-refused")

	if err := w.Lock([]byte(pw)); err != nil {
		fail("Wallet.Lock:unexpected-error", "lock", "Lock: %v", err)
		return
	}
	oc.Add("lock-ok")
	distinct.Add(fmt.Sprintf("lock/%s/%s/%q", k.Name, ct, pw))
	if !w.IsEncrypted() || w.Secrets() == "" {
		fail("Wallet.Lock:not-marked-encrypted", "lock", "IsEncrypted=%v secrets empty=%v", w.IsEncrypted(), w.Secrets() == "")
	}
	if verifState(orig) != origState {
		fail("Wallet.Lock:locks-the-clone-source", "lock", "locking a clone changed the original")
	}
	lockedSer, err := w.Serialize()
	if err != nil {
		fail("Wallet.Serialize:locked-wallet-error", "serialize", "%v", err)
		return
	}
	for _, n := range needles {
		for hi, h := range haystacks(lockedSer) {
			if bytes.Contains(h, n.Val) {
				what := strings.Fields(n.What)[0]
				fail("Wallet.Lock:secret-in-serialised-locked-wallet:"+what, "serialize", "the serialised locked wallet contains %s (haystack %d)", n.What, hi)
			}
		}
	}
	oc.AddN("secret-forms-searched", len(needles))
	// the accessors of the locked object are empty as well
	if w.Seed() != "" || w.LastSeed() != "" || w.SeedPassphrase() != "" {
		fail("Wallet.Lock:secret-accessor-not-erased", "lock", "locked wallet still returns seed %q lastSeed %q passphrase %q", w.Seed(), w.LastSeed(), w.SeedPassphrase())
	}
	lockedState := verifState(w)

	// double lock refused, no change
	if err := w.Lock([]byte(pw)); err == nil {
		fail("Wallet.Lock:locks-twice", "lock(again)", "second Lock succeeded")
	} else if verifState(w) != lockedState {
		fail("Wallet.Lock:failed-lock-changes-wallet", "lock(again)", "second Lock failed (%v) but the wallet changed", err)
	}
	oc.Add("double-lock-refused")

	// reload from the serialised form (what a restarted node sees)
	lw, err := k.Load(lockedSer)
	if err != nil {
		fail("Wallet.Load:locked-wallet-rejected", "load", "%v", err)
		return
	}
	if verifState(lw) != lockedState {
		fail("Wallet.Load:locked-wallet-differs-after-reload", "load", "state after reload:\n%s\nbefore:\n%s", verifState(lw), lockedState)
	}

	targets := []wallet.Wallet{w, lw}
	if mode.heavy || ct == crypto.CryptoTypeScryptChacha20poly1305Insecure {
		targets = targets[1:] // 1 GiB (32 MiB) per call: only the reloaded copy (what a restarted node holds) is unlocked
	}
	for _, target := range targets {
		where := "reloaded"
		if target == w {
			where = "in-memory"
		}
		wrongs := wrongPasswords(pw)
		if mode.nWrong > 0 && len(wrongs) > mode.nWrong {
			wrongs = wrongs[:mode.nWrong]
		}
		if !mode.heavy && where == "reloaded" && len(wrongs) > 2 {
			wrongs = wrongs[:2] // the reloaded copy holds the same ciphertext: two wrong passwords suffice
		}
		tryWrong := func(target wallet.Wallet, bad string) {
			var uw wallet.Wallet
			var uerr error
			pan, msg := engine.Catch(func() { uw, uerr = target.Unlock([]byte(bad)) })
			c := cs
			c.Other = bad
			c.Step = "unlock(other) " + where
			switch {
			case pan:
				r.Failf("Wallet.Unlock:panic:wrong-password", c, "%s/%s: Unlock(%q) panicked: %s", k.Name, ct, bad, msg)
			case uerr == nil:
				sig := "Wallet.Unlock:accepts-other-password"
				if strings.TrimRight(bad, "\x00") == strings.TrimRight(pw, "\x00") {
					// HMAC zero-pads keys shorter than its block: PBKDF2/scrypt cannot tell "pw" from "pw\x00"
					sig += ":differs-only-in-trailing-NUL-bytes(HMAC-key-padding)"
				} else if len(pw) > 64 && bad == string(sha256sum([]byte(pw))) {
					sig += ":is-sha256-of-the-longer-than-64-bytes-password(HMAC-key-hashing)"
				}
				r.Failf(sig, c, "%s/%s locked with %q: Unlock(%q) succeeded (wallet %v)", k.Name, ct, pw, bad, uw != nil)
				oc.Add("unlock-other-password-ACCEPTED")
			case uw != nil:
				r.Failf("Wallet.Unlock:returns-wallet-with-error", c, "%s/%s: Unlock(%q) returned a wallet together with %v", k.Name, ct, bad, uerr)
			default:
				oc.Add("unlock-other-password-refused")
			}
			distinct.Add(fmt.Sprintf("unlock-wrong/%s/%s/%q/%q/%s", k.Name, ct, pw, bad, where))
		}
		tryRight := func(target wallet.Wallet) {
			uw, err := target.Unlock([]byte(pw))
			if err != nil {
				fail("Wallet.Unlock:rejects-right-password", "unlock(same) "+where, "Unlock with the locking password: %v", err)
				return
			}
			oc.Add("unlock-same-password-ok")
			distinct.Add(fmt.Sprintf("unlock-right/%s/%s/%q/%s", k.Name, ct, pw, where))
			got, want := verifState(uw), origState
			if mode.legacy {
				// a wallet file written before the cryptoType field existed gets the field filled in when it is locked; the
				// statement speaks of secrets and entries, so the metadata field is left out of the comparison
				got, want = reCryptoType.ReplaceAllString(got, ""), reCryptoType.ReplaceAllString(want, "")
			}
			if got != want {
				fail("Wallet.Unlock:restored-state-differs", "unlock(same) "+where, "unlocked state differs from the original:\n got %s\nwant %s", got, want)
			}
			if ser, err := uw.Serialize(); err != nil || (!mode.legacy && !bytes.Equal(ser, origSer)) {
				fail("Wallet.Unlock:restored-serialisation-differs", "unlock(same) "+where, "serialisation after unlock differs from the original (err %v)", err)
			}
		}
		if mode.heavy {
			// independent calls on the locked wallet and on a clone of it, concurrently (each takes seconds)
			var hw sync.WaitGroup
			twin := target.Clone()
			hw.Add(1)
			go func() { defer hw.Done(); tryWrong(twin, wrongs[0]) }()
			tryRight(target)
			hw.Wait()
			if verifState(twin) != lockedState || verifState(target) != lockedState {
				fail("Wallet.Unlock:unlock-changes-locked-wallet", "unlock "+where, "Unlock changed the locked wallet it was called on")
			}
			continue
		}
		for _, bad := range wrongs {
			tryWrong(target, bad)
			if verifState(target) != lockedState {
				c := cs
				c.Other = bad
				r.Failf("Wallet.Unlock:failed-unlock-changes-wallet", c, "%s/%s: Unlock(%q) changed the locked wallet", k.Name, ct, bad)
			}
		}
		if _, err := target.Unlock(nil); err == nil {
			fail("Wallet.Unlock:accepts-empty-password", "unlock(empty) "+where, "Unlock(nil) succeeded")
		}
		oc.Add("unlock-empty-password-refused")
		tryRight(target)
		if verifState(target) != lockedState {
			fail("Wallet.Unlock:unlock-changes-locked-wallet", "unlock(same) "+where, "Unlock changed the locked wallet it was called on")
		}
	}

	// A life in encrypted mode: wallet kinds that can derive addresses from public material while locked (bip44) do so on the
	// locked wallet; unlocking must then give exactly the wallet a never-encrypted twin reaches by the same generation calls
	// (the secrets of entries created while locked are filled in - and re-encrypted - by the unlock path), and the locked
	// serialisation must not contain any of the twin's secrets.
	if !mode.heavy {
		gl, twin := lw.Clone(), orig.Clone()
		gens := 0
		for _, opts := range [][]wallet.Option{{wallet.OptionGenerateN(2)}, {wallet.OptionGenerateN(2), wallet.OptionChange()}} {
			var e1 error
			if pan, _ := engine.Catch(func() { _, e1 = gl.GenerateAddresses(opts...) }); pan || e1 != nil {
				continue
			}
			if _, e2 := twin.GenerateAddresses(opts...); e2 != nil {
				fail("Wallet.GenerateAddresses:locked-wallet-generates-what-the-unlocked-cannot", "generate-while-locked", "%v", e2)
				continue
			}
			gens++
		}
		if gens > 0 {
			oc.Add("generate-while-locked")
			if glSer, err := gl.Serialize(); err == nil {
				for _, n := range secretNeedles(twin) {
					for hi, h := range haystacks(glSer) {
						if bytes.Contains(h, n.Val) {
							fail("Wallet.Lock:secret-in-serialised-locked-wallet:"+strings.Fields(n.What)[0]+":after-generating-while-locked", "serialize", "the serialised locked wallet contains %s (haystack %d)", n.What, hi)
						}
					}
				}
				if rl, err := k.Load(glSer); err != nil {
					fail("Wallet.Load:locked-wallet-rejected:after-generating-while-locked", "load", "%v", err)
				} else {
					gl = rl // what a restarted node holds
				}
			}
			uw, err := gl.Unlock([]byte(pw))
			if err != nil {
				fail("Wallet.Unlock:rejects-right-password:after-generating-while-locked", "unlock(same)", "%v", err)
			} else {
				if got, want := verifState(uw), verifState(twin); got != want {
					fail("Wallet.Unlock:restored-state-differs:after-generating-while-locked", "unlock(same)", "the unlocked wallet differs from a never-encrypted wallet after the same address generation:\n got %s\nwant %s", got, want)
				}
				// and locking it again keeps the round trip
				if err := uw.Lock([]byte(pw)); err == nil {
					if uw2, err := uw.Unlock([]byte(pw)); err != nil || verifState(uw2) != verifState(twin) {
						fail("Wallet.Unlock:restored-state-differs:after-generating-while-locked:second-round", "unlock(same)", "Lock→Unlock of the unlocked wallet: err %v", err)
					}
				}
			}
		}
	}
}

func c18(r *engine.Run) {
	oc := engine.NewCounter()  // part (a) outcome classes
	dc := engine.NewCounter()  // part (b) outcome classes
	fam := engine.NewCounter() // part (b) cases per family
	distinctA := engine.NewSet()
	kinds := c18Kinds()
	var wg sync.WaitGroup
	phase := map[string]float64{}
	var phaseMu sync.Mutex
	tick := func(name string, t0 time.Time) {
		phaseMu.Lock()
		phase[name] = time.Since(t0).Seconds()
		phaseMu.Unlock()
	}
	t0 := time.Now()

	// ---- (a) default scrypt (N = 2^20, 1 GiB per call): a handful of Lock/Unlock pairs, at most 3 at a time
	type pair struct {
		k  int
		pw int
	}
	defPairs := []pair{{0, 0}, {1, 3}}
	if r.Thorough() {
		defPairs = append(defPairs, pair{2, 2}, pair{0, 2}, pair{1, 1}, pair{2, 0})
	}
	wg.Add(1)
	go func() {
		defer wg.Done()
		engine.ParForN(3, len(defPairs)+1, func(i int) {
			if i == len(defPairs) {
				// a legacy wallet file (no cryptoType recorded): one Lock / reload / Unlock round with whatever cipher the code picks
				c18Secrets(r, c18LegacyKind(), "", c18Passwords[0], c18Mode{nWrong: 1, heavy: true, legacy: true}, oc, distinctA)
				oc.Add("legacy-wallet-lock-unlock")
				return
			}
			p := defPairs[i]
			c18Secrets(r, kinds[p.k], crypto.CryptoTypeScryptChacha20poly1305, c18Passwords[p.pw], c18Mode{nWrong: 1, heavy: true}, oc, distinctA)
			oc.Add("default-scrypt-lock-unlock-pair")
		})
		tick("a_default_scrypt", t0)
	}()

	// ---- (a) full product with the cheap ciphers
	type job struct {
		k  int
		ct crypto.CryptoType
		pw int
		nw int
	}
	var jobs []job
	for ki := range kinds {
		for _, ct := range []crypto.CryptoType{crypto.CryptoTypeSha256Xor, crypto.CryptoTypeVerifScryptN16} {
			for pi := range c18Passwords {
				jobs = append(jobs, job{ki, ct, pi, 0})
			}
		}
		// the registered N = 2^15 entry: one password per wallet kind, two wrong passwords
		jobs = append(jobs, job{ki, crypto.CryptoTypeScryptChacha20poly1305Insecure, (ki + 1) % len(c18Passwords), 1})
	}
	wg.Add(1)
	go func() {
		defer wg.Done()
		engine.ParForN(6, len(jobs), func(i int) {
			j := jobs[i]
			c18Secrets(r, kinds[j.k], j.ct, c18Passwords[j.pw], c18Mode{nWrong: j.nw}, oc, distinctA)
		})
		tick("a_product", t0)
	}()

	// ---- (b) Decrypt robustness
	var cases []dcase
	addCases := func(cipherName string, b *baseCT, ins []rawInput, pws map[string][]byte) {
		for _, in := range ins {
			for _, kind := range []string{"right", "wrong", "empty"} {
				pw := pws[kind]
				c := dcase{Cipher: cipherName, Family: in.Family, Class: in.Class, Desc: in.Desc, Text: in.Text, PwKind: kind, Pw: pw}
				if b != nil {
					c.Desc = b.Name + ": " + in.Desc
				}
				cases = append(cases, c)
			}
		}
	}
	single := scryptFieldSets{
		N: []int{-1, 0, 1, 2, 3, 15, 16, 17, 32, 1 << r.Pick(12, 16)}, R: []int{-1, 0, 1, 2, 8, 9}, P: []int{-1, 0, 1, 2},
		KeyLen: []int{-1, 0, 16, 31, 32, 33, 64}, SaltLen: []int{0, 1, 31, 32, 33}, NonceLen: []int{0, 1, 8, 11, 12, 13, 24},
	}
	product := &scryptFieldSets{N: []int{-1, 0, 1, 3, 16}, R: []int{-1, 0, 1}, P: []int{-1, 0, 1}, KeyLen: []int{0, 16, 32, 33}, SaltLen: []int{0, 1, 32}, NonceLen: []int{0, 1, 11, 12, 13, 24}}
	if r.Thorough() {
		product = &scryptFieldSets{N: []int{-1, 0, 1, 2, 3, 16, 1 << 16}, R: []int{-1, 0, 1, 8}, P: []int{-1, 0, 1, 2}, KeyLen: []int{-1, 0, 16, 32, 33}, SaltLen: []int{0, 1, 32}, NonceLen: []int{0, 1, 11, 12, 13, 24}}
	}
	sb := scryptBases()
	for i := range sb {
		var prod *scryptFieldSets
		if i == 0 {
			prod = product
		}
		addCases(cScrypt, &sb[i], scryptInputs(sb[i], prod, single), map[string][]byte{"right": sb[i].Pw, "wrong": append(append([]byte{}, sb[i].Pw...), '!'), "empty": {}})
	}
	xb := xorBases()
	for i := range xb {
		addCases(cXor, &xb[i], xorInputs(xb[i]), map[string][]byte{"right": xb[i].Pw, "wrong": append(append([]byte{}, xb[i].Pw...), '!'), "empty": {}})
	}
	var tiny []rawInput
	for _, s := range tinyBase64Strings() {
		tiny = append(tiny, rawInput{"tiny-base64", decodedLenClass(s), fmt.Sprintf("the string %q", s), s})
	}
	for _, extra := range []string{"\n", "\r\n", " ", "AA==\n", "AAA=\n", "====", "A===", "AA=A"} {
		tiny = append(tiny, rawInput{"tiny-base64", decodedLenClass([]byte(extra)), fmt.Sprintf("the string %q", extra), []byte(extra)})
	}
	addCases(cScrypt, nil, tiny, map[string][]byte{"right": []byte("pw"), "wrong": []byte("pw!"), "empty": {}})
	addCases(cXor, nil, tiny, map[string][]byte{"right": []byte("pw"), "wrong": []byte("pw!"), "empty": {}})

	partC := c18History(r, oc)
	partS := c18Service(r, oc)
	tick("b_generate", t0)
	t1 := time.Now()
	// reference expectations (parallel; scrypt with N ≤ 2^16 inside)
	engine.ParFor(len(cases), func(i int) {
		c := &cases[i]
		if len(c.Pw) == 0 {
			c.Expect, c.Why = "error", "missing password"
			return
		}
		if c.Cipher == cScrypt {
			c.Expect, c.Plain, c.Why = scryptExpect(c.Text, c.Pw)
		} else {
			c.Expect, c.Plain, c.Why = xorExpect(c.Text, c.Pw)
		}
	})
	tick("b_model", t1)
	t2 := time.Now()
	// the real Decrypt, sandboxed
	// batches of ~400 cheap cases; a case that makes scrypt run with N = 2^16 (64 MiB, ~0.5 s) weighs 40,
	// so that a batch never comes near its deadline because of legitimate work
	weight := func(c *dcase) int {
		if c.Cipher == cScrypt && (strings.Contains(c.Desc, "n=65536") || c.Class == "n=65536") {
			return 40
		}
		return 1
	}
	type span struct{ lo, hi int }
	var spans []span
	for lo := 0; lo < len(cases); {
		hi, wsum := lo, 0
		for hi < len(cases) && (wsum < 400 || hi == lo) {
			wsum += weight(&cases[hi])
			hi++
		}
		spans = append(spans, span{lo, hi})
		lo = hi
	}
	nb := len(spans)
	results := make([]decRes, len(cases))
	vmem := 2 << 20 // KiB = 2 GiB
	deadline := time.Duration(r.Pick(300, 900)) * time.Second
	engine.ParForN(12, nb, func(bi int) {
		lo, hi := spans[bi].lo, spans[bi].hi
		reqs := make([]decReq, 0, hi-lo)
		for i := lo; i < hi; i++ {
			reqs = append(reqs, decReq{ID: i, Cipher: cases[i].Cipher, Text: cases[i].Text, Pw: cases[i].Pw})
		}
		copy(results[lo:hi], runDecryptBatch(reqs, vmem, deadline))
	})
	tick("b_workers", t2)
	distinctB := engine.NewSet()
	nontrivialB := engine.NewSet()
	var samples []interface{}
	for i := range cases {
		c, res := cases[i], results[i]
		fam.Add(c.Cipher + ":" + c.Family)
		key := c.Cipher + "|" + string(c.Text) + "|" + string(c.Pw)
		distinctB.Add(key)
		if c.Family != "valid" || c.PwKind != "right" {
			nontrivialB.Add(key)
		}
		site := siteName(c.Cipher)
		describe := fmt.Sprintf("%s.Decrypt(%q, password %s %q) [%s / %s / %s]", c.Cipher, truncText(c.Text), c.PwKind, c.Pw, c.Family, c.Class, c.Desc)
		switch res.Res {
		case "panic":
			dc.Add("PANIC")
			r.Failf(site+":panic:"+panicSite(c.Cipher, res.Msg), c, "%s panicked: %s (reference: %s %s)", describe, res.Msg, c.Expect, c.Why)
		case "died", "timeout":
			dc.Add("PROCESS-" + strings.ToUpper(res.Res))
			r.Failf(site+":process-"+res.Res+":"+c.Family+":"+c.Class, c, "%s killed the worker process (%s): %s", describe, res.Res, res.Msg)
		case "err":
			dc.Add("error(expected " + c.Expect + ")")
			if c.Expect == "plain" {
				sig := site + ":rejects-valid-ciphertext:" + c.Family
				r.Failf(sig, c, "%s returned error %q; the reference decrypts it to %d bytes", describe, res.Msg, len(c.Plain))
			}
		case "ok":
			dc.Add("plaintext(expected " + c.Expect + ")")
			switch {
			case c.Expect == "error":
				r.Failf(site+":accepts-invalid-ciphertext:"+c.Family+":"+c.Class, c, "%s returned %d bytes of plaintext without error; the reference rejects it: %s", describe, len(res.Plain), c.Why)
			case !bytes.Equal(res.Plain, c.Plain):
				r.Failf(site+":wrong-plaintext:"+c.Family, c, "%s returned %x, the reference %x", describe, res.Plain, c.Plain)
			}
		default:
			r.Broken("worker protocol: no result for case %d (%s)", i, describe)
		}
		if len(samples) < 4 && (c.Family == "meta-length-prefix" || c.Family == "sealed-length-field") && c.PwKind == "right" && i%7 == 0 {
			samples = append(samples, map[string]interface{}{"cipher": c.Cipher, "family": c.Family, "class": c.Class, "ciphertext": string(c.Text), "password": string(c.Pw), "model_expects": c.Expect, "observed": res.Res})
		}
	}
	wg.Wait()

	// vacuity guards
	for _, k := range []string{"lock-ok", "unlock-same-password-ok", "unlock-other-password-refused", "default-scrypt-lock-unlock-pair", "double-lock-refused", "lock-empty-password-refused"} {
		if oc.Get(k) == 0 {
			r.Broken("vacuous: part (a) never reached %q (%v)", k, oc.Map())
		}
	}
	if dc.Get("plaintext(expected plain)") == 0 || dc.Get("error(expected error)") == 0 {
		r.Broken("vacuous: part (b) outcome classes %v", dc.Map())
	}
	for _, f := range []string{"truncate-raw", "truncate-base64", "meta-length-prefix", "meta-field", "meta-product", "meta-json", "tiny-base64", "valid"} {
		if fam.Get(cScrypt+":"+f) == 0 {
			r.Broken("vacuous: scrypt family %s empty", f)
		}
	}
	for _, f := range []string{"truncate-raw", "truncate-base64", "checksum-violation", "resealed-truncation", "sealed-length-field", "sealed-inner", "tiny-base64", "valid"} {
		if fam.Get(cXor+":"+f) == 0 {
			r.Broken("vacuous: sha256-xor family %s empty", f)
		}
	}
	samples = append(samples, c18aCase{Wallet: "bip44+passphrase", Cipher: string(crypto.CryptoTypeScryptChacha20poly1305), Password: c18Passwords[3], Step: "lock → serialize → search secrets → reload → unlock(other) → unlock(same)"})

	r.Assumptions = append(r.Assumptions,
		fmt.Sprintf("default scrypt parameters (N=2^20, 1 GiB/call) exercised for %d Lock/Unlock pairs only; the wallet × password product uses sha256-xor and a harness-registered scrypt-chacha20poly1305 entry with N=16 (same code path; Decrypt reads N from the metadata), plus the registered N=2^15 entry once per wallet kind", len(defPairs)),
		"Decrypt alphabet keeps scrypt N ≤ 2^16 (memory exhaustion through huge N / r / keyLen in attacker metadata is outside the alphabet, DESIGN.md section 5)",
		"salts, nonces and file names are random in Encrypt/Lock: verdicts and relations are compared, never ciphertext bytes; half of the base ciphertexts are built by the reference model with fixed salt/nonce so those inputs are identical in every run",
		"secrets are searched in raw, hex, HEX and base64 form in the serialised bytes and in the concatenation of all unescaped JSON strings; needles shorter than 8 bytes are skipped",
		"expected verdicts come from model/walletref (golang.org/x/crypto scrypt + chacha20poly1305 with validated parameters; sha256-xor from the format comment), the real Decrypt runs in worker subprocesses under ulimit -v 2 GiB")
	r.Finish(engine.Coverage{
		"evaluations":         oc.Get("lock-ok") + oc.Get("unlock-same-password-ok") + oc.Get("unlock-other-password-refused") + len(cases),
		"distinct_nontrivial": distinctA.Len() + nontrivialB.Len(),
		"rule": "part (a): distinct (operation, wallet kind, cipher, password[, other password]) tuples; part (b): distinct (cipher, ciphertext bytes, password) triples other than a valid ciphertext with its own password " +
			"(i.e. every truncated / re-prefixed / re-parameterised / re-sealed / malformed input and every wrong or empty password)",
		"samples":                    samples,
		"exhaustive":                 true,
		"outcome_histogram":          dc.Map(),
		"outcome_histogram_wallets":  oc.Map(),
		"decrypt_cases":              len(cases),
		"decrypt_distinct_inputs":    distinctB.Len(),
		"decrypt_cases_per_family":   fam.Map(),
		"lock_unlock_default_scrypt": len(defPairs),
		"worker_batches":             nb,
		"phase_seconds":              phase,
		"history_independence":       partC,
		"through_the_wallet_service": partS,
		"alphabet": map[string]interface{}{"wallet_kinds": len(kinds), "passwords": len(c18Passwords), "ciphers": 4, "scrypt_base_ciphertexts": len(sb), "xor_base_ciphertexts": len(xb),
			"scrypt_meta_product": product, "scrypt_meta_single": single, "tiny_base64_strings": len(tiny)},
	})
}

func truncText(b []byte) string {
	if len(b) > 60 {
		return string(b[:60]) + fmt.Sprintf("…(%d bytes)", len(b))
	}
	return string(b)
}
