package main

import (
	"bytes"
	"encoding/base64"
	"fmt"

	"github.com/skycoin/skycoin/src/cipher/encrypt"

	"verif/engine"
	"verif/model/walletref"
)

// C18 part (c): the ciphers are functions of (plaintext, password, nonce) only.
//
// Every ORDERED PAIR of plaintext sizes (A, B) over an alphabet that crosses the places where the sha256-xor block index
// changes its varint length (block 63→64: 1→2 bytes, block 8191→8192: 2→3 bytes) and a few scrypt sizes: first the real cipher
// works on a plaintext of size A (encrypt and decrypt), then - in the same process, so that anything a call leaves behind
// in package-level state is still there - the real Encrypt of the B-plaintext must be decryptable by the REFERENCE
// implementation (model/walletref), and a REFERENCE encryption of it must be decrypted by the real Decrypt.  This is what
// "a wallet locked now unlocks later / in another process, whatever the node encrypted in between" needs.
func c18History(r *engine.Run, oc *engine.Counter) map[string]interface{} {
	// block count = 1 + ceil((4+n)/32); block index 64 is first used at n = 2013, index 8192 at n = 262109
	sizes := []int{0, 1, 27, 28, 29, 1000, 1980, 2011, 2012, 2013, 2014, 2100, 4000, 262107, 262108, 262109, 262140}
	if r.Quick() {
		sizes = []int{0, 28, 1000, 2012, 2013, 2100, 262108, 262109}
	}
	pw := []byte("history pw")
	pt := func(n int) []byte { return fixedBytes(fmt.Sprintf("verif C18 history plaintext %d", n), n) }
	evals := 0
	for _, a := range sizes {
		for _, b := range sizes {
			cs := map[string]interface{}{"cipher": "sha256-xor", "first_plaintext_bytes": a, "then_plaintext_bytes": b}
			pan, msg := engine.Catch(func() {
				x := encrypt.Sha256Xor{}
				ca, err := x.Encrypt(pt(a), pw)
				if err == nil {
					_, err = x.Decrypt(ca, pw)
				}
				if err != nil {
					r.Failf("Sha256Xor:round-trip-fails", cs, "Encrypt/Decrypt of %d bytes: %v", a, err)
					return
				}
				// real Encrypt → reference decrypt
				cb, err := x.Encrypt(pt(b), pw)
				if err != nil {
					r.Failf("Sha256Xor.Encrypt:error", cs, "%v", err)
					return
				}
				if v := walletref.XorClassifyText(cb, pw); !v.StrictOK || !bytes.Equal(v.Plain, pt(b)) {
					r.Failf("Sha256Xor.Encrypt:ciphertext-differs-from-the-documented-format:after-an-earlier-call", cs,
						"after encrypting %d bytes, the encryption of %d bytes is not what the format defines (reference: strict=%v lenient=%v %s): another process could not decrypt it", a, b, v.StrictOK, v.LenientOK, v.Why)
				}
				// reference encrypt → real Decrypt
				raw := walletref.XorEncryptRaw(pt(b), pw, fixedBytes(fmt.Sprintf("history nonce %d %d", a, b), 32))
				got, err := x.Decrypt([]byte(base64.StdEncoding.EncodeToString(raw)), pw)
				if err != nil || !bytes.Equal(got, pt(b)) {
					r.Failf("Sha256Xor.Decrypt:rejects-valid-ciphertext:after-an-earlier-call", cs,
						"after working on %d bytes, Decrypt of a well-formed %d-byte encryption fails: %v", a, b, err)
				}
			})
			if pan {
				r.Failf("Sha256Xor:panic", cs, "%s", msg)
			}
			evals++
			oc.Add("history-pair")
		}
	}
	return map[string]interface{}{
		"what":                           "every ordered pair (A,B) of plaintext sizes: real cipher works on A, then real Encrypt(B) ↔ reference decrypt and reference encrypt(B) ↔ real Decrypt, in one process",
		"plaintext_sizes":                sizes,
		"ordered_pairs":                  evals,
		"block_index_boundaries_crossed": []int{64, 8192},
	}
}
