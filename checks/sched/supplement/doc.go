// Package supplement holds the free-running supplement of property C32: the same scenario bodies as the
// exploration harnesses, run N times on the UN-rewritten gnet code with real goroutines over real loopback TCP
// under the Go race detector (`go test -race`), with random scheduling noise.  It is sampling: it can add
// findings, it cannot clear anything.  Started by `./run C32 thorough` only.
package supplement
