package supplement

import (
	"encoding/binary"
	"errors"
	"flag"
	"fmt"
	"io"
	"log"
	"math/rand"
	"net"
	"sync"
	"testing"
	"time"

	"github.com/skycoin/skycoin/src/daemon/gnet"
	"github.com/skycoin/skycoin/src/util/logging"
)

var iterations = flag.Int("n", 100, "iterations per scenario")

type pingMsg struct{ X uint32 }

func (m *pingMsg) EncodeSize() uint64 { return 4 }
func (m *pingMsg) Encode(b []byte) error {
	binary.LittleEndian.PutUint32(b, m.X)
	return nil
}
func (m *pingMsg) Decode(b []byte) (uint64, error) {
	if len(b) < 4 {
		return 0, errors.New("short")
	}
	m.X = binary.LittleEndian.Uint32(b)
	return 4, nil
}

type state struct {
	pool  *gnet.ConnectionPool
	reply bool
}

func (m *pingMsg) Handle(ctx *gnet.MessageContext, st interface{}) error {
	s, _ := st.(*state)
	if s != nil && s.reply {
		_ = s.pool.SendMessage(ctx.Addr, &pingMsg{X: m.X + 1})
	}
	return nil
}

func TestMain(m *testing.M) {
	log.SetOutput(io.Discard)
	logging.Disable()
	gnet.RegisterMessage(gnet.MessagePrefixFromString("PING"), pingMsg{})
	gnet.VerifyMessages()
	m.Run()
}

// delays draws n random delays up front (the goroutines of a scenario must not share the generator)
func delays(r *rand.Rand, n int) []time.Duration {
	out := make([]time.Duration, n)
	for i := range out {
		if r.Intn(4) > 0 {
			out[i] = time.Duration(r.Intn(300)) * time.Microsecond
		}
	}
	return out
}

type env struct {
	pool *gnet.ConnectionPool
	st   *state
	run  sync.WaitGroup
	addr string
}

func newEnv(t *testing.T, reply bool) *env {
	cfg := gnet.NewConfig()
	cfg.Address = "127.0.0.1"
	cfg.Port = 0
	cfg.ConnectionWriteQueueSize = 2
	st := &state{reply: reply}
	p, err := gnet.NewConnectionPool(cfg, st)
	if err != nil {
		t.Fatal(err)
	}
	st.pool = p
	return &env{pool: p, st: st}
}

func (e *env) start() {
	e.run.Add(1)
	go func() { defer e.run.Done(); _ = e.pool.Run() }()
}

// waitListening polls through the strand-free accessor the daemon also uses; this itself is part of the scenario.
func (e *env) waitListening(t *testing.T) {
	for i := 0; i < 2000; i++ {
		if a, err := e.pool.ListeningAddress(); err == nil {
			e.addr = a.String()
			return
		}
		time.Sleep(100 * time.Microsecond)
	}
	t.Fatal("pool does not listen")
}

func shutdownWithin(t *testing.T, e *env, name string) {
	done := make(chan struct{})
	go func() { e.pool.Shutdown(); e.run.Wait(); close(done) }()
	select {
	case <-done:
	case <-time.After(2 * time.Second):
		t.Errorf("%s: Shutdown / Run did not return within 2s", name)
	}
}

func TestRunListeningAddressShutdown(t *testing.T) {
	for i := 0; i < *iterations; i++ {
		r := rand.New(rand.NewSource(int64(i)))
		d := delays(r, 2)
		e := newEnv(t, false)
		var wg sync.WaitGroup
		wg.Add(2)
		go func() { defer wg.Done(); time.Sleep(d[0]); e.start() }()
		go func() { defer wg.Done(); _, _ = e.pool.ListeningAddress() }()
		time.Sleep(d[1])
		wg.Wait()
		shutdownWithin(t, e, fmt.Sprintf("iteration %d", i))
	}
}

func TestConnectSendDisconnectShutdown(t *testing.T) {
	for i := 0; i < *iterations; i++ {
		r := rand.New(rand.NewSource(int64(i)))
		e := newEnv(t, true)
		e.start()
		e.waitListening(t)
		c, err := net.Dial("tcp", e.addr)
		if err != nil {
			t.Fatal(err)
		}
		local := c.LocalAddr().String()
		go func() {
			b, _ := gnet.EncodeMessage(&pingMsg{X: 7})
			_, _ = c.Write(b)
			_, _ = io.Copy(io.Discard, c)
			c.Close()
		}()
		d := delays(r, 5)
		time.Sleep(d[4])
		var wg sync.WaitGroup
		wg.Add(4)
		go func() { defer wg.Done(); time.Sleep(d[0]); _ = e.pool.SendMessage(local, &pingMsg{X: 1}) }()
		go func() { defer wg.Done(); time.Sleep(d[1]); _ = e.pool.Disconnect(local, errors.New("x")) }()
		go func() { defer wg.Done(); time.Sleep(d[2]); _, _ = e.pool.Size(); _, _ = e.pool.GetConnections() }()
		go func() { defer wg.Done(); time.Sleep(d[3]); shutdownWithin(t, e, fmt.Sprintf("iteration %d", i)) }()
		wg.Wait()
	}
}

// An outgoing connection to a default peer while the daemon's query for the default-peer limit, a disconnect and the shutdown run.
func TestConnectDefaultPeerQueryDisconnectShutdown(t *testing.T) {
	for i := 0; i < *iterations; i++ {
		r := rand.New(rand.NewSource(int64(i)))
		ln, err := net.Listen("tcp", "127.0.0.1:0")
		if err != nil {
			t.Fatal(err)
		}
		remote := ln.Addr().String()
		go func() {
			for {
				c, err := ln.Accept()
				if err != nil {
					return
				}
				go func() { _, _ = io.Copy(io.Discard, c); c.Close() }()
			}
		}()
		cfg := gnet.NewConfig()
		cfg.Address = "127.0.0.1"
		cfg.Port = 0
		cfg.ConnectionWriteQueueSize = 2
		cfg.DefaultConnections = []string{remote}
		st := &state{}
		p, err := gnet.NewConnectionPool(cfg, st)
		if err != nil {
			t.Fatal(err)
		}
		st.pool = p
		e := &env{pool: p, st: st}
		e.start()
		e.waitListening(t)
		d := delays(r, 4)
		var wg sync.WaitGroup
		wg.Add(3)
		go func() { defer wg.Done(); time.Sleep(d[0]); _ = e.pool.Connect(remote) }()
		go func() {
			defer wg.Done()
			time.Sleep(d[1])
			for k := 0; k < 3; k++ {
				e.pool.IsMaxOutgoingDefaultConnectionsReached()
				time.Sleep(50 * time.Microsecond)
			}
		}()
		go func() { defer wg.Done(); time.Sleep(d[2]); _ = e.pool.Disconnect(remote, errors.New("x")) }()
		wg.Wait()
		time.Sleep(d[3])
		shutdownWithin(t, e, fmt.Sprintf("iteration %d", i))
		ln.Close()
	}
}
