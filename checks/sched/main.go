// Command check (group "sched"): deviation-bounded stateless exploration of goroutine interleavings of the
// real gnet.ConnectionPool + strand code (concurrency-rewritten at build time by checks/sched/gen) under the
// cooperative scheduler verif/shim/vsched.
package main

import (
	"fmt"
	"io"
	"log"
	"os"
	"runtime/debug"
	"runtime/pprof"

	"github.com/sirupsen/logrus"
	"github.com/skycoin/skycoin/src/util/logging"

	"verif/engine"
)

var checks = map[string]func(r *engine.Run){}
var levels = map[string]string{}
var workers = map[string]func(args []string){}

func register(id, level string, f func(r *engine.Run)) {
	checks[id] = f
	levels[id] = level
}

func main() {
	log.SetOutput(io.Discard)
	debug.SetGCPercent(400) // executions allocate little that survives; fewer collections, less scavenging
	logging.Disable()
	logging.SetLevel(logrus.PanicLevel) // no formatting work for discarded log lines (logger.Panic still panics)
	if pf := os.Getenv("VERIF_PROF"); pf != "" {
		f, _ := os.Create(pf)
		pprof.StartCPUProfile(f)
		defer pprof.StopCPUProfile()
	}
	if len(os.Args) >= 3 && os.Args[1] == "--worker" {
		w, ok := workers[os.Args[2]]
		if !ok {
			os.Exit(3)
		}
		w(os.Args[3:])
		return
	}
	if len(os.Args) < 3 {
		fmt.Fprintln(os.Stderr, "usage: check <id> quick|thorough")
		os.Exit(2)
	}
	id, tier := os.Args[1], os.Args[2]
	f, ok := checks[id]
	if !ok {
		fmt.Fprintf(os.Stderr, "CHECK-BROKEN: no check %s in this group\n", id)
		os.Exit(2)
	}
	if tier == "--replay" {
		if len(os.Args) < 4 {
			fmt.Fprintln(os.Stderr, "usage: check <id> --replay <file>")
			os.Exit(2)
		}
		os.Exit(replayFile(os.Args[3]))
	}
	r := engine.Start(id, tier, levels[id])
	defer engine.Cleanup()
	f(r)
}
