package main

import (
	"encoding/json"
	"fmt"
	"os"

	"verif/shim/vsched"
)

// replayFile re-executes the schedules of a replay file (plain loop, no explorer) and prints the verdicts.
func replayFile(path string) int {
	b, err := os.ReadFile(path)
	if err != nil {
		fmt.Fprintf(os.Stderr, "CHECK-BROKEN: %v\n", err)
		return 2
	}
	var rf struct {
		Signature string `json:"signature"`
		Failures  []struct {
			Sig  string   `json:"signature"`
			Case caseFile `json:"case"`
		} `json:"failures"`
	}
	if err := json.Unmarshal(b, &rf); err != nil {
		fmt.Fprintf(os.Stderr, "CHECK-BROKEN: %v\n", err)
		return 2
	}
	rc := 0
	for _, f := range rf.Failures {
		ff := &failing{Sig: f.Sig, Harness: f.Case.Harness, Bound: f.Case.Bound, Choices: f.Case.Choices}
		ok, e, o := replayFailure(ff)
		if e == nil {
			fmt.Fprintf(os.Stderr, "CHECK-BROKEN: unknown harness %q\n", f.Case.Harness)
			return 2
		}
		for _, l := range traceLines(e, 0) {
			fmt.Println(l)
		}
		if ok {
			fmt.Printf("  detail: %s\n", describe(ff, e, o))
			fmt.Printf("VIOLATION property=C32 replay=%s\n", path)
			rc = 1
		} else {
			fmt.Printf("schedule no longer violates %s (outcome %s)\n", f.Sig, e.Outcome)
		}
	}
	_ = vsched.Completed
	return rc
}
