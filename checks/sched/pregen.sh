#!/bin/bash
# checks/sched/pregen.sh <builddir> — run by ./run and setup.sh after ovgen.
# Generates the concurrency-rewritten copies of gnet/*.go and strand/strand.go (property C32) from the CURRENT
# /repo tree (plus whatever ovgen already replaced, e.g. a mutant) and adds them to <builddir>/overlay.json.
# Any failure is loud (CHECK-BROKEN, exit 2).
B=$1
[ -n "$B" ] && [ -f "$B/overlay.json" ] || { echo "CHECK-BROKEN: sched pregen: no $B/overlay.json" >&2; exit 2; }
B=$(cd "$B" && pwd)
ROOT=$(cd "$(dirname "$0")/../.." && pwd)
export GOFLAGS=-mod=mod GOPROXY=off GOSUMDB=off GOTOOLCHAIN=local GOCACHE=$ROOT/.cache
mkdir -p "$ROOT/.build"
(
  flock 8
  cd "$ROOT/checks/sched/gen" || exit 2
  if [ ! -x "$ROOT/.build/schedgen" ] || [ -n "$(find . -name '*.go' -newer "$ROOT/.build/schedgen" 2>/dev/null)" ]; then
    go build -o "$ROOT/.build/schedgen" . || { echo "CHECK-BROKEN: sched pregen: rewriter does not build" >&2; exit 2; }
  fi
) 8>"$ROOT/.build/.schedgen.lock" || exit 2
cd "$ROOT" || exit 2
"$ROOT/.build/schedgen" "$B" >/dev/null || exit 2
