package main

import (
	"fmt"
	"os"
	"strconv"
	"time"

	"verif/shim/vsched"
)

func init() {
	workers["debug"] = func(args []string) {
		h := harnessByName(args[0])
		bound, _ := strconv.Atoi(args[1])
		max, _ := strconv.ParseInt(args[2], 10, 64)
		if len(args) > 3 && args[3] == "trace" {
			e := vsched.Replay(bodyOf(h), nil, vsched.Options{Horizon: 4000, LowPriority: lowPriority})
			for _, l := range traceLines(e, 0) {
				fmt.Println(l)
			}
			fmt.Println(e.Outcome, e.Blocked, e.Broken, e.Panic, e.PanicStack)
			fmt.Println(lastObs.class(), lastObs.counts)
			return
		}
		t := time.Now()
		exploreNoSleep = os.Getenv("NOSLEEP") != ""
		exploreNoCache = os.Getenv("NOCACHE") != ""
		res := exploreHarness(h, bound, time.Now().Add(time.Hour), max)
		if kf := os.Getenv("KEYFILE"); kf != "" {
			f, _ := os.Create(kf)
			for _, k := range res.TraceKeys {
				fmt.Fprintf(f, "%x\n", k)
			}
			f.Close()
		}
		fmt.Fprintf(os.Stdout, "%+v\noutcomes=%v traces=%d nontriv=%d classes=%d %.1fs\n", res.Stats, res.Outcomes, res.Traces, res.Nontriv, len(res.Classes), time.Since(t).Seconds())
		for k, v := range res.Classes {
			fmt.Println("  class", v, k)
		}
		for _, f := range res.Failures {
			fmt.Println("  FAIL", f.Count, f.Sig)
		}
		fmt.Println("  overlaps", res.Overlaps, "counts", res.Counts)
	}
}

func init() {
	workers["failtrace"] = func(args []string) {
		h := harnessByName(args[0])
		bound, _ := strconv.Atoi(args[1])
		max, _ := strconv.ParseInt(args[2], 10, 64)
		res := exploreHarness(h, bound, time.Now().Add(time.Hour), max)
		for _, f := range res.Failures {
			if len(args) > 3 && !containsStr(f.Sig, args[3]) {
				continue
			}
			fmt.Println("FAIL", f.Count, f.Sig)
			_, e, o := replayFailure(f)
			for _, l := range traceLines(e, 0) {
				fmt.Println(l)
			}
			fmt.Println(describe(f, e, o))
		}
	}
}

func containsStr(s, sub string) bool {
	for i := 0; i+len(sub) <= len(s); i++ {
		if s[i:i+len(sub)] == sub {
			return true
		}
	}
	return false
}
