package main

import (
	"encoding/json"
	"fmt"
	"os"
	"strconv"
	"time"
	"verif/engine"

	"verif/shim/vsched"
)

func init() {
	workers["debug"] = func(args []string) {
		h := harnessByName(args[0])
		bound, _ := strconv.Atoi(args[1])
		max, _ := strconv.ParseInt(args[2], 10, 64)
		if len(args) > 3 && args[3] == "trace" {
			e := vsched.Replay(bodyOf(h), nil, vsched.Options{Horizon: 4000, LowPriority: lowPriority})
			for _, l := range traceLines(e, 0) {
				fmt.Println(l)
			}
			fmt.Println(e.Outcome, e.Blocked, e.Broken, e.Panic, e.PanicStack)
			fmt.Println(lastObs.class(), lastObs.counts)
			return
		}
		t := time.Now()
		exploreNoSleep = os.Getenv("NOSLEEP") != ""
		exploreNoCache = os.Getenv("NOCACHE") != ""
		cfg := exploreCfg{bound: bound, deadline: time.Now().Add(time.Hour), maxExecs: max}
		if sp := os.Getenv("SHARED"); sp != "" {
			os.Remove(sp)
			tb, err := vsched.OpenSharedTable(sp, 22)
			if err != nil {
				panic(err)
			}
			cfg.shared = tb
			defer os.Remove(sp)
		}
		res := exploreHarness(h, cfg)
		if kf := os.Getenv("KEYFILE"); kf != "" {
			f, _ := os.Create(kf)
			for _, k := range res.TraceKeys {
				fmt.Fprintf(f, "%x\n", k)
			}
			f.Close()
		}
		fmt.Fprintf(os.Stdout, "%+v\noutcomes=%v traces=%d nontriv=%d classes=%d %.1fs\n", res.Stats, res.Outcomes, res.Traces, res.Nontriv, len(res.Classes), time.Since(t).Seconds())
		for k, v := range res.Classes {
			fmt.Println("  class", v, k)
		}
		for _, f := range res.Failures {
			fmt.Println("  FAIL", f.Count, f.Sig)
		}
		fmt.Println("  overlaps", res.Overlaps, "counts", res.Counts)
	}
}

func init() {
	workers["failtrace"] = func(args []string) {
		h := harnessByName(args[0])
		bound, _ := strconv.Atoi(args[1])
		max, _ := strconv.ParseInt(args[2], 10, 64)
		res := exploreHarness(h, exploreCfg{bound: bound, deadline: time.Now().Add(time.Hour), maxExecs: max})
		for _, f := range res.Failures {
			if len(args) > 3 && !containsStr(f.Sig, args[3]) {
				continue
			}
			fmt.Println("FAIL", f.Count, f.Sig)
			_, e, o := replayFailure(f)
			for _, l := range traceLines(e, 0) {
				fmt.Println(l)
			}
			fmt.Println(describe(f, e, o))
		}
	}
}

func containsStr(s, sub string) bool {
	for i := 0; i+len(sub) <= len(s); i++ {
		if s[i:i+len(sub)] == sub {
			return true
		}
	}
	return false
}

// lostTrace: explore without sleep sets, pick an execution whose trace key is in the file of lost keys, print
// it, then explore WITH sleep sets watching that schedule.
func init() {
	workers["lost"] = func(args []string) {
		h := harnessByName(args[0])
		bound, _ := strconv.Atoi(args[1])
		lost := map[string]bool{}
		b, _ := os.ReadFile(args[2])
		for _, l := range splitLines(string(b)) {
			lost[l] = true
		}
		opts := vsched.Options{Bound: bound, Horizon: 4000, LowPriority: lowPriority}
		var target []vsched.Choice
		vsched.Explore(bodyOf(h), opts, func(e *vsched.Execution) bool {
			if e.Outcome != vsched.Pruned && lost[fmt.Sprintf("%x", e.TraceKey[0])] {
				target = append([]vsched.Choice(nil), e.Choices...)
				return false
			}
			return true
		})
		if target == nil {
			fmt.Println("no lost execution found")
			return
		}
		r := vsched.Replay(bodyOf(h), target, opts)
		for _, l := range traceLines(r, 0) {
			fmt.Println(l)
		}
		opts.Sleep = true
		opts.Watch = target
		vsched.Explore(bodyOf(h), opts, func(e *vsched.Execution) bool { return true })
	}
}

func splitLines(s string) []string {
	var out []string
	cur := ""
	for _, c := range s {
		if c == '\n' {
			if cur != "" {
				out = append(out, cur)
			}
			cur = ""
		} else {
			cur += string(c)
		}
	}
	return out
}

func init() {
	workers["supplement"] = func(args []string) {
		r := engine.Start("C32", "thorough", "exploration")
		n, _ := strconv.Atoi(args[0])
		res := supplement(r, n, 300*time.Second)
		b, _ := json.MarshalIndent(res, "", " ")
		fmt.Println(string(b))
	}
}
