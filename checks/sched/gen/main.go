// Command gen (group "sched", property C32) produces concurrency-rewritten copies of the CURRENT
// /repo/src/daemon/gnet and /repo/src/daemon/strand sources (honouring files already replaced in
// <builddir>/overlay.json, e.g. by a mutant) and adds them to <builddir>/overlay.json.
//
//	gen <builddir>
//
// Rewrites (everything else in a file is kept; comments are dropped):
//
//	chan T                         -> *vsched.Chan[T]
//	make(chan T[, n])              -> vsched.MakeChan[T](n, "<label>")
//	c <- v                         -> c.Send(v)
//	<-c   /  v, ok := <-c          -> c.Recv()  /  c.Recv2()
//	close(c)                       -> c.Close()
//	for v := range c { B }         -> for { v, ok := c.Recv2(); if !ok { break }; B }
//	select { case ...: B }         -> switch k0, k1 := c0.RecvCase(), c1.SendCase(v); vsched.Select(hasDefault, k0, k1) { case 0: B ... }
//	go f(a)                        -> vsched.Go(func() { f(a) })        (function value and arguments evaluated eagerly)
//	import "sync"                  -> verif/shim/vsync
//	import "net"  (if net.Listen / net.Dial* is called in the file)   -> verif/shim/vnet
//	import "time" (if time.After / NewTimer / NewTicker / Tick / Sleep / AfterFunc is used) -> verif/shim/vsched/stime
//	x.f  (f a field of gnet.ConnectionPool / gnet.Connection, not of a sync type)
//	                               -> (*vsched.R(&x.f, "T.f", "func"))  or  (*vsched.W(...)) in a writing position
//	*p   (whole-struct read of one of those types)    -> *vsched.RS(p, "T", "func")
//
// Any construct the rewriter does not understand makes generation fail loudly (CHECK-BROKEN, exit 2).
package main

import (
	"bytes"
	"crypto/sha256"
	"encoding/json"
	"fmt"
	"go/ast"
	"go/printer"
	"go/token"
	"go/types"
	"os"
	"path/filepath"
	"runtime"
	"sort"
	"strconv"
	"strings"

	"golang.org/x/tools/go/ast/astutil"
	"golang.org/x/tools/go/packages"
)

const (
	repo      = "/repo"
	verifRoot = "/verif"
	modPath   = "github.com/skycoin/skycoin"
)

var targetPkgs = []string{"src/daemon/gnet", "src/daemon/strand"}

// structs whose fields are instrumented for the race monitor (package gnet)
var trackedStructs = []string{"ConnectionPool", "Connection"}

func die(format string, a ...interface{}) {
	fmt.Fprintf(os.Stderr, "CHECK-BROKEN: sched rewriter: "+format+"\n", a...)
	os.Exit(2)
}

type report struct {
	Files      map[string]map[string]int `json:"files"`  // file -> construct -> count
	Fields     []string                  `json:"fields"` // instrumented fields
	Excluded   []string                  `json:"excluded_fields"`
	Totals     map[string]int            `json:"totals"`
	GoSites    []string                  `json:"go_sites"`
	Unchanged  []string                  `json:"unchanged_files"`
	TreeFiles  []string                  `json:"rewritten_files"`
	ImportsMap map[string]string         `json:"import_redirects"`
}

func main() {
	if len(os.Args) != 2 {
		die("usage: gen <builddir>")
	}
	build := os.Args[1]
	ovPath := filepath.Join(build, "overlay.json")
	var ov struct{ Replace map[string]string }
	if b, err := os.ReadFile(ovPath); err != nil {
		die("read %s: %v (ovgen must run first)", ovPath, err)
	} else if err := json.Unmarshal(b, &ov); err != nil {
		die("parse %s: %v", ovPath, err)
	}
	if ov.Replace == nil {
		ov.Replace = map[string]string{}
	}
	// the sources to type-check: current tree + files replaced by ovgen (mutants), but NOT the verif export files
	overlay := map[string][]byte{}
	for dst, src := range ov.Replace {
		if !strings.HasPrefix(dst, repo+"/") {
			continue
		}
		if _, err := os.Stat(dst); err != nil {
			continue // an added file (export file): excluded by its build tag anyway
		}
		b, err := os.ReadFile(src)
		if err != nil {
			die("read %s: %v", src, err)
		}
		overlay[dst] = b
	}
	// fast path: nothing relevant changed since the last generation -> re-add the same files to the overlay
	outDir := filepath.Join(build, "_schedgen") // (ovgen wipes <build>/_gen on every run; "_" dirs are ignored by go)
	stamp := inputStamp(overlay)
	if old, err := os.ReadFile(filepath.Join(outDir, "stamp")); err == nil && string(old) == stamp {
		var add map[string]string
		if b, err := os.ReadFile(filepath.Join(outDir, "add.json")); err == nil && json.Unmarshal(b, &add) == nil && len(add) > 0 {
			ok := true
			for _, g := range add {
				if _, err := os.Stat(g); err != nil {
					ok = false
				}
			}
			if ok {
				for dst, g := range add {
					ov.Replace[dst] = g
				}
				ob, _ := json.MarshalIndent(map[string]interface{}{"Replace": ov.Replace}, "", " ")
				if err := os.WriteFile(ovPath, ob, 0o644); err != nil {
					die("%v", err)
				}
				fmt.Println("sched rewriter: inputs unchanged, generated files reused")
				return
			}
		}
	}
	cfg := &packages.Config{
		Mode: packages.NeedName | packages.NeedFiles | packages.NeedCompiledGoFiles | packages.NeedImports |
			packages.NeedTypes | packages.NeedSyntax | packages.NeedTypesInfo | packages.NeedTypesSizes,
		Dir:     verifRoot,
		Overlay: overlay,
		Env:     append(os.Environ(), "GOFLAGS=-mod=mod", "GOPROXY=off", "GOSUMDB=off", "GOTOOLCHAIN=local"),
	}
	var patterns []string
	for _, p := range targetPkgs {
		patterns = append(patterns, modPath+"/"+p)
	}
	pkgs, err := packages.Load(cfg, patterns...)
	if err != nil {
		die("load: %v", err)
	}
	if len(pkgs) != len(targetPkgs) {
		die("loaded %d packages, want %d", len(pkgs), len(targetPkgs))
	}
	rep := &report{Files: map[string]map[string]int{}, Totals: map[string]int{}, ImportsMap: map[string]string{
		"sync": "verif/shim/vsync", "net": "verif/shim/vnet", "time": "verif/shim/vsched/stime"}}
	gen := outDir
	os.RemoveAll(gen)
	os.MkdirAll(gen, 0o755)
	added := map[string]string{}
	for _, p := range pkgs {
		if len(p.Errors) > 0 {
			die("package %s does not type-check: %v", p.PkgPath, p.Errors[0])
		}
		rw := &rewriter{pkg: p, rep: rep, tracked: map[*types.Named]string{}}
		if strings.HasSuffix(p.PkgPath, "/gnet") {
			for _, name := range trackedStructs {
				obj := p.Types.Scope().Lookup(name)
				if obj == nil {
					die("struct %s.%s not found (renamed?)", p.PkgPath, name)
				}
				named, ok := obj.Type().(*types.Named)
				if !ok {
					die("%s is not a named type", name)
				}
				st, ok := named.Underlying().(*types.Struct)
				if !ok {
					die("%s is not a struct", name)
				}
				rw.tracked[named] = name
				for i := 0; i < st.NumFields(); i++ {
					f := st.Field(i)
					if f.Embedded() {
						die("%s has an embedded field %s: not supported by the access instrumentation", name, f.Name())
					}
					if isSyncType(f.Type()) {
						rep.Excluded = append(rep.Excluded, name+"."+f.Name()+" (sync object)")
						continue
					}
					rep.Fields = append(rep.Fields, name+"."+f.Name())
				}
			}
		}
		for i, f := range p.Syntax {
			path := p.CompiledGoFiles[i]
			if strings.HasSuffix(path, "_test.go") {
				continue
			}
			rel, _ := filepath.Rel(repo, path)
			out, changed := rw.file(f, rel)
			if !changed {
				rep.Unchanged = append(rep.Unchanged, rel)
				continue
			}
			dst := filepath.Join(gen, "sched__"+strings.ReplaceAll(rel, "/", "__"))
			if err := os.WriteFile(dst, out, 0o644); err != nil {
				die("%v", err)
			}
			ov.Replace[path] = dst
			added[path] = dst
			rep.TreeFiles = append(rep.TreeFiles, rel)
		}
	}
	for _, m := range rep.Files {
		for k, v := range m {
			rep.Totals[k] += v
		}
	}
	// sanity: the anchored mechanisms must have been seen
	for _, k := range []string{"go", "select", "send", "recv", "close", "makechan", "chantype", "range-chan", "field-read", "field-write"} {
		if rep.Totals[k] == 0 {
			die("no %q construct rewritten in gnet+strand: the rewriter no longer matches the code", k)
		}
	}
	sort.Strings(rep.Fields)
	rb, _ := json.MarshalIndent(rep, "", " ")
	if err := os.WriteFile(filepath.Join(gen, "sched_rewrite_report.json"), rb, 0o644); err != nil {
		die("%v", err)
	}
	ob, _ := json.MarshalIndent(map[string]interface{}{"Replace": ov.Replace}, "", " ")
	if err := os.WriteFile(ovPath, ob, 0o644); err != nil {
		die("%v", err)
	}
	ab, _ := json.Marshal(added)
	if err := os.WriteFile(filepath.Join(gen, "add.json"), ab, 0o644); err != nil {
		die("%v", err)
	}
	if err := os.WriteFile(filepath.Join(gen, "stamp"), []byte(stamp), 0o644); err != nil {
		die("%v", err)
	}
	fmt.Printf("sched rewriter: %d files rewritten, totals %v\n", len(rep.TreeFiles), rep.Totals)
}

// inputStamp hashes everything the generated files depend on: the (overlaid) non-test sources of the target
// packages, the generator binary and the Go version.
func inputStamp(overlay map[string][]byte) string {
	h := sha256.New()
	for _, p := range targetPkgs {
		dir := filepath.Join(repo, p)
		ents, err := os.ReadDir(dir)
		if err != nil {
			die("%v", err)
		}
		for _, e := range ents {
			n := e.Name()
			if e.IsDir() || !strings.HasSuffix(n, ".go") || strings.HasSuffix(n, "_test.go") {
				continue
			}
			path := filepath.Join(dir, n)
			b, ok := overlay[path]
			if !ok {
				b, err = os.ReadFile(path)
				if err != nil {
					die("%v", err)
				}
			}
			fmt.Fprintf(h, "%s %d\n", path, len(b))
			h.Write(b)
		}
	}
	if exe, err := os.Executable(); err == nil {
		if st, err := os.Stat(exe); err == nil {
			fmt.Fprintf(h, "gen %d %d\n", st.Size(), st.ModTime().UnixNano())
		}
	}
	fmt.Fprintf(h, "go %s\n", runtime.Version())
	return fmt.Sprintf("%x", h.Sum(nil))
}

func isSyncType(t types.Type) bool {
	if p, ok := t.(*types.Pointer); ok {
		t = p.Elem()
	}
	n, ok := t.(*types.Named)
	return ok && n.Obj().Pkg() != nil && n.Obj().Pkg().Path() == "sync"
}

type rewriter struct {
	pkg     *packages.Package
	rep     *report
	tracked map[*types.Named]string

	// per file
	rel      string
	counts   map[string]int
	skip     map[ast.Node]bool   // nodes handled by their parent (recv inside select / assign)
	writes   map[ast.Node]bool   // selector expressions in a writing position
	fnOf     map[ast.Node]string // enclosing function name of interesting nodes
	labelOf  map[ast.Node]string // label for make(chan)
	lhsStar  map[ast.Node]bool
	selX     map[ast.Node]bool     // StarExpr that is the X of a selector (handled through the selection)
	rangeCh  map[ast.Node]bool     // range statements over a channel
	initLit  map[ast.Node]string   // &T{...} of a struct with sync fields -> label
	initVar  map[ast.Node][]string // DeclStmt declaring sync objects -> names
	useVSync bool
	capVar   map[types.Object]string // captured, assigned local variables -> label
	capUse   map[*ast.Ident]string   // their uses
	retReads map[ast.Node][]string   // bare returns that implicitly read captured named results
	nsel     int
	useVS    bool
	netFuncs bool
	timeFunc bool
}

func (rw *rewriter) fail(n ast.Node, format string, a ...interface{}) {
	pos := rw.pkg.Fset.Position(n.Pos())
	die("%s:%d: %s", rw.rel, pos.Line, fmt.Sprintf(format, a...))
}

func (rw *rewriter) typeOf(e ast.Expr) types.Type {
	if tv, ok := rw.pkg.TypesInfo.Types[e]; ok {
		return tv.Type
	}
	if id, ok := e.(*ast.Ident); ok {
		if o := rw.pkg.TypesInfo.ObjectOf(id); o != nil {
			return o.Type()
		}
	}
	return nil
}

func (rw *rewriter) isChan(e ast.Expr) bool {
	t := rw.typeOf(e)
	if t == nil {
		return false
	}
	_, ok := t.Underlying().(*types.Chan)
	return ok
}

func (rw *rewriter) isBuiltin(e ast.Expr, name string) bool {
	id, ok := unparen(e).(*ast.Ident)
	if !ok || id.Name != name {
		return false
	}
	_, ok = rw.pkg.TypesInfo.Uses[id].(*types.Builtin)
	return ok
}

func unparen(e ast.Expr) ast.Expr {
	for {
		p, ok := e.(*ast.ParenExpr)
		if !ok {
			return e
		}
		e = p.X
	}
}

// trackedField reports whether sel selects a field of a tracked struct and returns "Type.field".
func (rw *rewriter) trackedField(sel *ast.SelectorExpr) (string, bool) {
	s, ok := rw.pkg.TypesInfo.Selections[sel]
	if !ok || s.Kind() != types.FieldVal {
		return "", false
	}
	recv := s.Recv()
	if p, ok := recv.(*types.Pointer); ok {
		recv = p.Elem()
	}
	named, ok := recv.(*types.Named)
	if !ok {
		return "", false
	}
	name, ok := rw.tracked[named]
	if !ok {
		return "", false
	}
	if len(s.Index()) != 1 {
		rw.fail(sel, "promoted field access %s through %s: not supported", sel.Sel.Name, name)
	}
	if isSyncType(s.Obj().Type()) {
		return "", false
	}
	return name + "." + sel.Sel.Name, true
}

// markWrites marks the tracked field selectors that are written when e is assigned to.
func (rw *rewriter) markWrites(e ast.Expr) {
	switch x := unparen(e).(type) {
	case *ast.Ident:
		if o := rw.pkg.TypesInfo.Uses[x]; o != nil {
			if _, ok := rw.capVar[o]; ok {
				rw.writes[x] = true
			}
		}
	case *ast.SelectorExpr:
		if _, ok := rw.trackedField(x); ok {
			rw.writes[x] = true
		}
		if t := rw.typeOf(x.X); t != nil {
			if _, isStruct := t.Underlying().(*types.Struct); isStruct {
				rw.markWrites(x.X)
			}
		}
	case *ast.IndexExpr:
		if t := rw.typeOf(x.X); t != nil {
			switch t.Underlying().(type) {
			case *types.Map, *types.Array:
				rw.markWrites(x.X)
			}
		}
	case *ast.StarExpr:
		if t := rw.typeOf(x.X); t != nil {
			if p, ok := t.Underlying().(*types.Pointer); ok {
				if n, ok := p.Elem().(*types.Named); ok {
					if _, tr := rw.tracked[n]; tr {
						rw.fail(x, "whole-struct assignment through a pointer to a tracked struct: not supported")
					}
				}
			}
		}
		rw.lhsStar[x] = true
	}
}

func funcDeclName(fd *ast.FuncDecl) string {
	if fd.Recv != nil && len(fd.Recv.List) == 1 {
		t := fd.Recv.List[0].Type
		if s, ok := t.(*ast.StarExpr); ok {
			t = s.X
		}
		if id, ok := t.(*ast.Ident); ok {
			if id.Name == "ConnectionPool" {
				return fd.Name.Name // the pool's methods are named without the type (shorter signatures)
			}
			return id.Name + "." + fd.Name.Name
		}
	}
	return fd.Name.Name
}

// captured finds the local variables (parameters and named results included) that are referenced from a
// function literal which may run on another goroutine (anything but an immediately invoked or deferred
// literal) and that are assigned somewhere after their declaration: accesses to them are instrumented like
// the pool's fields (e.g. `l` in Size(), written by the strand goroutine and read by the caller's return).
func (rw *rewriter) captured(f *ast.File) {
	info := rw.pkg.TypesInfo
	for _, d := range f.Decls {
		fd, ok := d.(*ast.FuncDecl)
		if !ok || fd.Body == nil {
			continue
		}
		fn := funcDeclName(fd)
		// function literals called on the spot (IIFE, defer) run on the same goroutine
		local := map[*ast.FuncLit]bool{}
		ast.Inspect(fd, func(n ast.Node) bool {
			switch x := n.(type) {
			case *ast.DeferStmt:
				if fl, ok := x.Call.Fun.(*ast.FuncLit); ok {
					local[fl] = true
				}
			case *ast.ExprStmt:
				if c, ok := x.X.(*ast.CallExpr); ok {
					if fl, ok := c.Fun.(*ast.FuncLit); ok {
						local[fl] = true
					}
				}
			case *ast.AssignStmt:
				for _, r := range x.Rhs {
					if c, ok := r.(*ast.CallExpr); ok {
						if fl, ok := c.Fun.(*ast.FuncLit); ok {
							local[fl] = true
						}
					}
				}
			}
			return true
		})
		cand := map[types.Object]bool{}
		ast.Inspect(fd, func(n ast.Node) bool {
			fl, ok := n.(*ast.FuncLit)
			if !ok || local[fl] {
				return true
			}
			ast.Inspect(fl.Body, func(m ast.Node) bool {
				id, ok := m.(*ast.Ident)
				if !ok {
					return true
				}
				v, ok := info.Uses[id].(*types.Var)
				if !ok || v.IsField() || v.Pkg() != rw.pkg.Types {
					return true
				}
				if v.Pos() >= fd.Pos() && v.Pos() < fd.End() && (v.Pos() < fl.Pos() || v.Pos() >= fl.End()) {
					cand[v] = true
				}
				return true
			})
			return true
		})
		if len(cand) == 0 {
			continue
		}
		// keep those that are assigned after their declaration
		written := map[types.Object]bool{}
		mark := func(e ast.Expr) {
			if id, ok := unparen(e).(*ast.Ident); ok {
				if o := info.Uses[id]; o != nil && cand[o] {
					written[o] = true
				}
			}
		}
		ast.Inspect(fd, func(n ast.Node) bool {
			switch x := n.(type) {
			case *ast.AssignStmt:
				for _, l := range x.Lhs {
					mark(l)
				}
			case *ast.IncDecStmt:
				mark(x.X)
			case *ast.RangeStmt:
				if x.Tok == token.ASSIGN {
					if x.Key != nil {
						mark(x.Key)
					}
					if x.Value != nil {
						mark(x.Value)
					}
				}
			case *ast.UnaryExpr:
				if x.Op == token.AND {
					mark(x.X) // address taken: may be written through the pointer
				}
			}
			return true
		})
		for o := range written {
			rw.capVar[o] = "local:" + o.Name() + "@" + fn
		}
	}
}

// namedResults returns the captured named results of a function type.
func (rw *rewriter) namedResults(ft *ast.FuncType) []string {
	var out []string
	if ft == nil || ft.Results == nil {
		return nil
	}
	for _, f := range ft.Results.List {
		for _, n := range f.Names {
			if o := rw.pkg.TypesInfo.Defs[n]; o != nil {
				if _, ok := rw.capVar[o]; ok {
					out = append(out, n.Name)
				}
			}
		}
	}
	return out
}

// analyse is pass 1: decisions are taken on the ORIGINAL tree (type information is keyed by its nodes).
func (rw *rewriter) analyse(f *ast.File) {
	var stack []ast.Node
	curFn := "init"
	enclosingFuncType := func() *ast.FuncType {
		for i := len(stack) - 1; i >= 0; i-- {
			switch x := stack[i].(type) {
			case *ast.FuncLit:
				return x.Type
			case *ast.FuncDecl:
				return x.Type
			}
		}
		return nil
	}
	ast.Inspect(f, func(n ast.Node) bool {
		if n == nil {
			stack = stack[:len(stack)-1]
			return true
		}
		var parent ast.Node
		if len(stack) > 0 {
			parent = stack[len(stack)-1]
		}
		stack = append(stack, n)
		switch x := n.(type) {
		case *ast.FuncDecl:
			curFn = funcDeclName(x)
		case *ast.Ident:
			if o := rw.pkg.TypesInfo.Uses[x]; o != nil {
				if lbl, ok := rw.capVar[o]; ok {
					skipIt := false
					switch p := parent.(type) {
					case *ast.UnaryExpr:
						skipIt = p.Op == token.AND
					case *ast.AssignStmt:
						if p.Tok == token.DEFINE {
							for _, l := range p.Lhs {
								if l == ast.Expr(x) {
									rw.fail(x, "captured variable %s re-assigned by := : cannot be instrumented", x.Name)
								}
							}
						}
					}
					if !skipIt {
						rw.capUse[x] = lbl
						rw.fnOf[x] = curFn
					}
				}
			}
		case *ast.ReturnStmt:
			if len(x.Results) == 0 {
				if names := rw.namedResults(enclosingFuncType()); len(names) > 0 {
					rw.retReads[x] = names
					rw.fnOf[x] = curFn
				}
			}
		case *ast.SelectorExpr:
			if _, ok := rw.trackedField(x); ok {
				rw.fnOf[x] = curFn
			}
			if id, ok := x.X.(*ast.Ident); ok {
				if pn, ok := rw.pkg.TypesInfo.Uses[id].(*types.PkgName); ok {
					switch pn.Imported().Path() {
					case "net":
						if _, isFunc := rw.pkg.TypesInfo.Uses[x.Sel].(*types.Func); isFunc {
							switch x.Sel.Name {
							case "Listen", "Dial", "DialTimeout":
								rw.netFuncs = true
							case "SplitHostPort", "JoinHostPort", "ParseIP":
							default:
								rw.fail(x, "net.%s is not modelled by vnet", x.Sel.Name)
							}
						}
					case "time":
						switch x.Sel.Name {
						case "After", "NewTimer", "NewTicker", "Tick", "Sleep", "AfterFunc", "Timer", "Ticker":
							rw.timeFunc = true
						}
					}
				}
			}
		case *ast.StarExpr:
			if t := rw.typeOf(x); t != nil {
				if nmd, ok := t.(*types.Named); ok {
					if _, tr := rw.tracked[nmd]; tr {
						if tv, ok := rw.pkg.TypesInfo.Types[x]; ok && tv.IsValue() {
							rw.fnOf[x] = curFn
						}
					}
				}
			}
		case *ast.AssignStmt:
			if x.Tok != token.DEFINE {
				for _, l := range x.Lhs {
					rw.markWrites(l)
				}
			}
			if len(x.Rhs) == 1 {
				if u, ok := unparen(x.Rhs[0]).(*ast.UnaryExpr); ok && u.Op == token.ARROW {
					if _, inSelect := parent.(*ast.CommClause); !inSelect {
						if len(x.Lhs) == 2 {
							rw.skip[u] = true
						}
					}
				}
			}
		case *ast.CompositeLit:
			if t := rw.typeOf(x); t != nil {
				if st, ok := t.Underlying().(*types.Struct); ok {
					has := false
					for i := 0; i < st.NumFields(); i++ {
						if ft := st.Field(i).Type(); isSyncType(ft) {
							if _, ptr := ft.(*types.Pointer); !ptr {
								has = true
							}
						}
					}
					if has {
						u, ok := parent.(*ast.UnaryExpr)
						if !ok || u.Op != token.AND {
							rw.fail(x, "struct with sync fields created by value: its sync objects would have no creation point")
						}
						name := "struct"
						if n, ok := t.(*types.Named); ok {
							name = n.Obj().Name()
						}
						rw.initLit[u] = name
					}
				}
			}
		case *ast.DeclStmt:
			if gd, ok := x.Decl.(*ast.GenDecl); ok && gd.Tok == token.VAR {
				for _, sp := range gd.Specs {
					vs := sp.(*ast.ValueSpec)
					if vs.Type == nil || len(vs.Values) != 0 {
						continue
					}
					if t := rw.typeOf(vs.Type); t != nil && isSyncType(t) {
						if _, ptr := t.(*types.Pointer); !ptr {
							for _, n := range vs.Names {
								rw.initVar[x] = append(rw.initVar[x], n.Name+"@"+curFn)
							}
						}
					}
				}
			}
		case *ast.IncDecStmt:
			rw.markWrites(x.X)
		case *ast.RangeStmt:
			if rw.isChan(x.X) {
				rw.rangeCh[x] = true
			}
			if x.Tok == token.ASSIGN {
				if x.Key != nil {
					rw.markWrites(x.Key)
				}
				if x.Value != nil {
					rw.markWrites(x.Value)
				}
			}
		case *ast.UnaryExpr:
			if x.Op == token.AND {
				if s, ok := unparen(x.X).(*ast.SelectorExpr); ok {
					if name, ok := rw.trackedField(s); ok {
						rw.fail(x, "address of tracked field %s taken: access kind unknown", name)
					}
				}
			}
		case *ast.CallExpr:
			if rw.isBuiltin(x.Fun, "delete") && len(x.Args) == 2 {
				rw.markWrites(&ast.IndexExpr{X: x.Args[0]}) // delete(m, k) writes m
				if s, ok := unparen(x.Args[0]).(*ast.SelectorExpr); ok {
					if _, ok := rw.trackedField(s); ok {
						rw.writes[s] = true
					}
				}
			}
			if (rw.isBuiltin(x.Fun, "len") || rw.isBuiltin(x.Fun, "cap")) && len(x.Args) == 1 && rw.isChan(x.Args[0]) {
				rw.fail(x, "len/cap of a channel: not modelled")
			}
			if rw.isBuiltin(x.Fun, "make") && len(x.Args) >= 1 {
				if _, ok := x.Args[0].(*ast.ChanType); ok {
					rw.labelOf[x] = chanLabel(parent, x, curFn)
				} else if rw.isChan(x.Args[0]) {
					rw.fail(x, "make of a named channel type: not supported")
				}
			}
			// pointer-receiver method called on an addressable tracked field of non-pointer type: may mutate it
			if s, ok := unparen(x.Fun).(*ast.SelectorExpr); ok {
				if sel, ok := rw.pkg.TypesInfo.Selections[s]; ok && sel.Kind() == types.MethodVal {
					if sig, ok := sel.Obj().Type().(*types.Signature); ok && sig.Recv() != nil {
						if _, ptrRecv := sig.Recv().Type().(*types.Pointer); ptrRecv {
							if t := rw.typeOf(s.X); t != nil {
								if _, isPtr := t.Underlying().(*types.Pointer); !isPtr {
									rw.markWrites(s.X)
								}
							}
						}
					}
				}
			}
		case *ast.SelectStmt:
			for _, c := range x.Body.List {
				cc := c.(*ast.CommClause)
				switch s := cc.Comm.(type) {
				case nil:
				case *ast.SendStmt:
					rw.skip[s] = true
				case *ast.ExprStmt:
					u, ok := unparen(s.X).(*ast.UnaryExpr)
					if !ok || u.Op != token.ARROW {
						rw.fail(s, "select case is not a receive")
					}
					rw.skip[u] = true
				case *ast.AssignStmt:
					if len(s.Rhs) != 1 {
						rw.fail(s, "select receive with %d right-hand sides", len(s.Rhs))
					}
					u, ok := unparen(s.Rhs[0]).(*ast.UnaryExpr)
					if !ok || u.Op != token.ARROW {
						rw.fail(s, "select case is not a receive")
					}
					rw.skip[u] = true
				default:
					rw.fail(cc, "unexpected select communication %T", s)
				}
			}
		case *ast.FuncType:
		case *ast.ChanType:
			if x.Dir != ast.SEND|ast.RECV {
				// directional channel types map to the same *vsched.Chan[T]; assignability is preserved
			}
		}
		return true
	})
}

func chanLabel(parent ast.Node, call *ast.CallExpr, fn string) string {
	name := "chan"
	switch p := parent.(type) {
	case *ast.KeyValueExpr:
		if id, ok := p.Key.(*ast.Ident); ok {
			name = id.Name
		}
	case *ast.AssignStmt:
		for i, r := range p.Rhs {
			if r == call && i < len(p.Lhs) {
				var b bytes.Buffer
				printer.Fprint(&b, token.NewFileSet(), p.Lhs[i])
				name = b.String()
			}
		}
	case *ast.ValueSpec:
		for i, r := range p.Values {
			if r == call && i < len(p.Names) {
				name = p.Names[i].Name
			}
		}
	}
	return name + "@" + fn
}

func vs(name string) ast.Expr {
	return &ast.SelectorExpr{X: ast.NewIdent("vsched"), Sel: ast.NewIdent(name)}
}

func str(s string) ast.Expr { return &ast.BasicLit{Kind: token.STRING, Value: strconv.Quote(s)} }

func method(x ast.Expr, name string, args ...ast.Expr) *ast.CallExpr {
	return &ast.CallExpr{Fun: &ast.SelectorExpr{X: x, Sel: ast.NewIdent(name)}, Args: args}
}

func (rw *rewriter) count(k string) { rw.counts[k]++ }

// file rewrites one file; it returns the new source and whether anything changed.
func (rw *rewriter) file(f *ast.File, rel string) ([]byte, bool) {
	rw.rel = rel
	rw.counts = map[string]int{}
	rw.skip = map[ast.Node]bool{}
	rw.writes = map[ast.Node]bool{}
	rw.fnOf = map[ast.Node]string{}
	rw.labelOf = map[ast.Node]string{}
	rw.lhsStar = map[ast.Node]bool{}
	rw.selX = map[ast.Node]bool{}
	rw.rangeCh = map[ast.Node]bool{}
	rw.initLit = map[ast.Node]string{}
	rw.initVar = map[ast.Node][]string{}
	rw.useVSync = false
	rw.capVar = map[types.Object]string{}
	rw.capUse = map[*ast.Ident]string{}
	rw.retReads = map[ast.Node][]string{}
	rw.useVS, rw.netFuncs, rw.timeFunc = false, false, false
	for _, cg := range f.Comments {
		for _, c := range cg.List {
			if strings.HasPrefix(c.Text, "//go:build") || strings.HasPrefix(c.Text, "// +build") {
				if c.Pos() < f.Package {
					rw.fail(c, "file has a build constraint: not supported")
				}
			}
			if strings.HasPrefix(c.Text, "//go:") && !strings.HasPrefix(c.Text, "//go:build") && !strings.HasPrefix(c.Text, "//go:generate") {
				rw.fail(c, "compiler directive %s would be lost", c.Text)
			}
		}
	}
	rw.captured(f)
	rw.analyse(f)

	fnStack := []string{}
	_ = fnStack
	result := astutil.Apply(f, nil, func(c *astutil.Cursor) bool {
		n := c.Node()
		switch x := n.(type) {
		case *ast.ChanType:
			rw.count("chantype")
			rw.useVS = true
			c.Replace(&ast.StarExpr{X: &ast.IndexExpr{X: vs("Chan"), Index: x.Value}})
		case *ast.CallExpr:
			if lbl, ok := rw.labelOf[x]; ok {
				st, ok := x.Args[0].(*ast.StarExpr)
				if !ok {
					rw.fail(x, "internal: make(chan) argument not rewritten")
				}
				elem := st.X.(*ast.IndexExpr).Index
				var size ast.Expr = &ast.BasicLit{Kind: token.INT, Value: "0"}
				if len(x.Args) == 2 {
					size = x.Args[1]
				} else if len(x.Args) != 1 {
					rw.fail(x, "make(chan) with %d arguments", len(x.Args))
				}
				rw.count("makechan")
				rw.useVS = true
				c.Replace(&ast.CallExpr{Fun: &ast.IndexExpr{X: vs("MakeChan"), Index: elem}, Args: []ast.Expr{size, str(lbl)}})
				return true
			}
			if id, ok := x.Fun.(*ast.Ident); ok && id.Name == "close" && len(x.Args) == 1 {
				if _, ok := rw.pkg.TypesInfo.Uses[id].(*types.Builtin); ok {
					rw.count("close")
					c.Replace(method(x.Args[0], "Close"))
				}
			}
		case *ast.SendStmt:
			if rw.skip[x] {
				return true
			}
			rw.count("send")
			c.Replace(&ast.ExprStmt{X: method(x.Chan, "Send", x.Value)})
		case *ast.Ident:
			lbl, ok := rw.capUse[x]
			if !ok {
				return true
			}
			if sel, isSel := c.Parent().(*ast.SelectorExpr); isSel && sel.Sel == x {
				return true
			}
			rw.useVS = true
			fn := "R"
			if rw.writes[x] {
				fn = "W"
				rw.count("local-write")
			} else {
				rw.count("local-read")
			}
			c.Replace(&ast.ParenExpr{X: &ast.StarExpr{X: &ast.CallExpr{Fun: vs(fn), Args: []ast.Expr{
				&ast.UnaryExpr{Op: token.AND, X: x}, str(lbl), str(rw.fnOf[x])}}}})
		case *ast.ReturnStmt:
			names, ok := rw.retReads[x]
			if !ok {
				return true
			}
			// a bare return reads the named results
			rw.useVS = true
			var list []ast.Stmt
			for _, nme := range names {
				rw.count("local-read")
				lbl := "local:" + nme + "@" + rw.fnOf[x]
				list = append(list, &ast.AssignStmt{Lhs: []ast.Expr{ast.NewIdent("_")}, Tok: token.ASSIGN, Rhs: []ast.Expr{
					&ast.StarExpr{X: &ast.CallExpr{Fun: vs("R"), Args: []ast.Expr{&ast.UnaryExpr{Op: token.AND, X: ast.NewIdent(nme)}, str(lbl), str(rw.fnOf[x])}}}}})
			}
			list = append(list, x)
			c.Replace(&ast.BlockStmt{List: list})
		case *ast.DeclStmt:
			for _, lbl := range rw.initVar[x] {
				name := lbl[:strings.Index(lbl, "@")]
				rw.count("sync-init")
				rw.useVSync = true
				c.InsertAfter(&ast.ExprStmt{X: &ast.CallExpr{Fun: &ast.SelectorExpr{X: ast.NewIdent("vsync"), Sel: ast.NewIdent("Init")},
					Args: []ast.Expr{&ast.UnaryExpr{Op: token.AND, X: ast.NewIdent(name)}, str(lbl)}}})
			}
		case *ast.UnaryExpr:
			if lbl, ok := rw.initLit[x]; ok {
				rw.count("sync-init")
				rw.useVSync = true
				c.Replace(&ast.CallExpr{Fun: &ast.SelectorExpr{X: ast.NewIdent("vsync"), Sel: ast.NewIdent("InitFields")}, Args: []ast.Expr{x, str(lbl)}})
				return true
			}
			if x.Op != token.ARROW || rw.skip[x] {
				return true
			}
			rw.count("recv")
			c.Replace(method(x.X, "Recv"))
		case *ast.AssignStmt:
			if len(x.Rhs) == 1 && len(x.Lhs) == 2 {
				if u, ok := unparen(x.Rhs[0]).(*ast.UnaryExpr); ok && u.Op == token.ARROW && rw.skip[u] {
					if _, inSelect := c.Parent().(*ast.CommClause); !inSelect {
						rw.count("recv")
						x.Rhs[0] = method(u.X, "Recv2")
					}
				}
			}
		case *ast.RangeStmt:
			if !rw.rangeCh[x] {
				return true
			}
			rw.count("range-chan")
			switch unparen(x.X).(type) {
			case *ast.Ident, *ast.SelectorExpr, *ast.StarExpr:
			default:
				rw.fail(x, "range over a channel expression with possible side effects")
			}
			if x.Value != nil {
				rw.fail(x, "range over channel with two variables")
			}
			okName := ast.NewIdent("vsOk")
			var recv ast.Stmt
			var key ast.Expr = ast.NewIdent("_")
			if x.Key != nil {
				key = x.Key
			}
			if x.Tok == token.ASSIGN {
				recv = &ast.AssignStmt{Lhs: []ast.Expr{key, okName}, Tok: token.ASSIGN, Rhs: []ast.Expr{method(x.X, "Recv2")}}
				body := append([]ast.Stmt{
					&ast.DeclStmt{Decl: &ast.GenDecl{Tok: token.VAR, Specs: []ast.Spec{&ast.ValueSpec{Names: []*ast.Ident{okName}, Type: ast.NewIdent("bool")}}}},
					recv,
					&ast.IfStmt{Cond: &ast.UnaryExpr{Op: token.NOT, X: okName}, Body: &ast.BlockStmt{List: []ast.Stmt{&ast.BranchStmt{Tok: token.BREAK}}}},
				}, x.Body.List...)
				c.Replace(&ast.ForStmt{Body: &ast.BlockStmt{List: body}})
				return true
			}
			recv = &ast.AssignStmt{Lhs: []ast.Expr{key, okName}, Tok: token.DEFINE, Rhs: []ast.Expr{method(x.X, "Recv2")}}
			body := append([]ast.Stmt{
				recv,
				&ast.IfStmt{Cond: &ast.UnaryExpr{Op: token.NOT, X: okName}, Body: &ast.BlockStmt{List: []ast.Stmt{&ast.BranchStmt{Tok: token.BREAK}}}},
			}, x.Body.List...)
			c.Replace(&ast.ForStmt{Body: &ast.BlockStmt{List: body}})
		case *ast.SelectStmt:
			rw.count("select")
			rw.useVS = true
			c.Replace(rw.selectStmt(x))
		case *ast.GoStmt:
			rw.count("go")
			rw.useVS = true
			rw.rep.GoSites = append(rw.rep.GoSites, fmt.Sprintf("%s:%d", rel, rw.pkg.Fset.Position(x.Pos()).Line))
			call := x.Call
			if fl, ok := call.Fun.(*ast.FuncLit); ok && len(call.Args) == 0 && len(fl.Type.Params.List) == 0 {
				c.Replace(&ast.ExprStmt{X: &ast.CallExpr{Fun: vs("Go"), Args: []ast.Expr{fl}}})
				return true
			}
			if id, ok := unparen(call.Fun).(*ast.Ident); ok {
				if _, b := rw.pkg.TypesInfo.Uses[id].(*types.Builtin); b {
					rw.fail(x, "go statement with a builtin")
				}
			}
			// evaluate the function value and the arguments now, call them in the new goroutine
			var lhs, rhs []ast.Expr
			fn := ast.NewIdent("vsGoF")
			lhs, rhs = append(lhs, fn), append(rhs, call.Fun)
			var args []ast.Expr
			for i, a := range call.Args {
				v := ast.NewIdent("vsGoA" + strconv.Itoa(i))
				lhs, rhs = append(lhs, v), append(rhs, a)
				args = append(args, v)
			}
			inner := &ast.CallExpr{Fun: fn, Args: args, Ellipsis: call.Ellipsis}
			if call.Ellipsis != token.NoPos {
				inner.Ellipsis = 1
			}
			c.Replace(&ast.BlockStmt{List: []ast.Stmt{
				&ast.AssignStmt{Lhs: lhs, Tok: token.DEFINE, Rhs: rhs},
				&ast.ExprStmt{X: &ast.CallExpr{Fun: vs("Go"), Args: []ast.Expr{
					&ast.FuncLit{Type: &ast.FuncType{Params: &ast.FieldList{}}, Body: &ast.BlockStmt{List: []ast.Stmt{&ast.ExprStmt{X: inner}}}}}}},
			}})
		case *ast.SelectorExpr:
			name, ok := rw.trackedField(x)
			if !ok {
				return true
			}
			if _, isKV := c.Parent().(*ast.KeyValueExpr); isKV && c.Name() == "Key" {
				return true
			}
			rw.useVS = true
			fn := "R"
			if rw.writes[x] {
				fn = "W"
				rw.count("field-write")
			} else {
				rw.count("field-read")
			}
			c.Replace(&ast.ParenExpr{X: &ast.StarExpr{X: &ast.CallExpr{Fun: vs(fn), Args: []ast.Expr{
				&ast.UnaryExpr{Op: token.AND, X: x}, str(name), str(rw.fnOf[x])}}}})
		case *ast.StarExpr:
			fn, ok := rw.fnOf[x]
			if !ok || rw.lhsStar[x] {
				return true
			}
			if _, isSel := c.Parent().(*ast.SelectorExpr); isSel && c.Name() == "X" {
				return true // (*p).f : handled as a field selection
			}
			if _, isParen := c.Parent().(*ast.ParenExpr); isParen {
				rw.fail(x, "parenthesised dereference of a tracked struct: not supported")
			}
			t := rw.typeOf(x).(*types.Named)
			rw.useVS = true
			rw.count("struct-read")
			c.Replace(&ast.StarExpr{X: &ast.CallExpr{Fun: vs("RS"), Args: []ast.Expr{x.X, str(rw.tracked[t]), str(fn)}}})
		}
		return true
	})
	f = result.(*ast.File)

	changed := false
	for _, v := range rw.counts {
		if v > 0 {
			changed = true
		}
	}
	// import redirection
	redirect := map[string]string{}
	for _, is := range f.Imports {
		p, _ := strconv.Unquote(is.Path.Value)
		switch p {
		case "sync":
			redirect[p] = "verif/shim/vsync"
		case "net":
			if rw.netFuncs {
				redirect[p] = "verif/shim/vnet"
			}
		case "time":
			if rw.timeFunc {
				redirect[p] = "verif/shim/vsched/stime"
			}
		case "sync/atomic", "context", "os/signal":
			rw.fail(is, "import %q: concurrency primitive not modelled", p)
		}
	}
	for _, is := range f.Imports {
		p, _ := strconv.Unquote(is.Path.Value)
		to, ok := redirect[p]
		if !ok {
			continue
		}
		if is.Name != nil && (is.Name.Name == "_" || is.Name.Name == ".") {
			rw.fail(is, "blank / dot import of %q", p)
		}
		if is.Name == nil {
			is.Name = ast.NewIdent(filepath.Base(p))
		}
		is.Path.Value = strconv.Quote(to)
		rw.count("import-" + p)
		changed = true
	}
	if !changed {
		return nil, false
	}
	if rw.useVS {
		astutil.AddNamedImport(rw.pkg.Fset, f, "vsched", "verif/shim/vsched")
	}
	if rw.useVSync {
		astutil.AddNamedImport(rw.pkg.Fset, f, "vsync", "verif/shim/vsync")
	}
	f.Comments = nil
	f.Doc = nil
	ast.Inspect(f, func(n ast.Node) bool {
		switch x := n.(type) {
		case *ast.GenDecl:
			x.Doc = nil
		case *ast.FuncDecl:
			x.Doc = nil
		case *ast.Field:
			x.Doc, x.Comment = nil, nil
		case *ast.ValueSpec:
			x.Doc, x.Comment = nil, nil
		case *ast.TypeSpec:
			x.Doc, x.Comment = nil, nil
		case *ast.ImportSpec:
			x.Doc, x.Comment = nil, nil
		}
		return true
	})
	var buf bytes.Buffer
	buf.WriteString("//go:build go1.18\n\n// Code generated by /verif/checks/sched/gen from " + rel + " (concurrency rewrite for property C32). DO NOT EDIT.\n\n")
	cfgp := printer.Config{Mode: printer.UseSpaces | printer.TabIndent, Tabwidth: 8}
	if err := cfgp.Fprint(&buf, rw.pkg.Fset, f); err != nil {
		die("print %s: %v", rel, err)
	}
	rw.rep.Files[rel] = rw.counts
	return buf.Bytes(), true
}

// selectStmt builds the switch that replaces a select (children are already rewritten).
func (rw *rewriter) selectStmt(s *ast.SelectStmt) ast.Stmt {
	rw.nsel++
	prefix := fmt.Sprintf("vsS%dC", rw.nsel)
	var lhs, rhs []ast.Expr
	var clauses []ast.Stmt
	hasDefault := false
	idx := 0
	for _, c := range s.Body.List {
		cc := c.(*ast.CommClause)
		if cc.Comm == nil {
			hasDefault = true
			clauses = append(clauses, &ast.CaseClause{List: []ast.Expr{&ast.UnaryExpr{Op: token.SUB, X: &ast.BasicLit{Kind: token.INT, Value: "1"}}}, Body: cc.Body})
			continue
		}
		v := ast.NewIdent(prefix + strconv.Itoa(idx))
		body := cc.Body
		switch st := cc.Comm.(type) {
		case *ast.SendStmt:
			rhs = append(rhs, method(st.Chan, "SendCase", st.Value))
			rw.count("select-send")
		case *ast.ExprStmt:
			u := unparen(st.X).(*ast.UnaryExpr)
			rhs = append(rhs, method(u.X, "RecvCase"))
			rw.count("select-recv")
		case *ast.AssignStmt:
			u := unparen(st.Rhs[0]).(*ast.UnaryExpr)
			rhs = append(rhs, method(u.X, "RecvCase"))
			rw.count("select-recv")
			m := "Value"
			if len(st.Lhs) == 2 {
				m = "Value2"
			} else if len(st.Lhs) != 1 {
				rw.fail(st, "select receive with %d left-hand sides", len(st.Lhs))
			}
			body = append([]ast.Stmt{&ast.AssignStmt{Lhs: st.Lhs, Tok: st.Tok, Rhs: []ast.Expr{method(v, m)}}}, body...)
		}
		lhs = append(lhs, v)
		clauses = append(clauses, &ast.CaseClause{List: []ast.Expr{&ast.BasicLit{Kind: token.INT, Value: strconv.Itoa(idx)}}, Body: body})
		idx++
	}
	hd := "false"
	if hasDefault {
		hd = "true"
	}
	args := []ast.Expr{ast.NewIdent(hd)}
	for _, l := range lhs {
		args = append(args, l)
	}
	sw := &ast.SwitchStmt{Tag: &ast.CallExpr{Fun: vs("Select"), Args: args}, Body: &ast.BlockStmt{List: clauses}}
	if len(lhs) > 0 {
		sw.Init = &ast.AssignStmt{Lhs: lhs, Tok: token.DEFINE, Rhs: rhs}
	}
	return sw
}
