package main

import (
	"bufio"
	"encoding/binary"
	"encoding/json"
	"fmt"
	"io"
	"os"
	"os/exec"
	"path/filepath"
	"regexp"
	"runtime"
	"sort"
	"strconv"
	"strings"
	"sync"
	"time"

	"verif/engine"
	"verif/shim/vsched"
)

func init() { register("C32", "exploration", c32) }

func sortStrings(s []string) { sort.Strings(s) }

func lowPriority(name string) bool { return strings.Contains(name, "strand.Strand") }

// failing is one failing execution, identified by its defect-class signature.
type failing struct {
	Sig     string          `json:"signature"`
	Harness string          `json:"harness"`
	Bound   int             `json:"bound"`
	Choices []vsched.Choice `json:"choices"`
	Count   int64           `json:"count"`
	Detail  string          `json:"detail"`
}

// harnessResult is what exploring one harness at one bound produced (also the worker's JSON output).
type harnessResult struct {
	Harness       string           `json:"harness"`
	Bound         int              `json:"bound"`
	Stats         vsched.Stats     `json:"stats"`
	Outcomes      map[string]int64 `json:"outcomes"`       // execution outcome -> count
	Classes       map[string]int64 `json:"result_classes"` // canonical (call results, final state) -> count
	Overlaps      map[string]int64 `json:"overlaps"`       // call -> executions in which it overlapped Shutdown
	Traces        int              `json:"distinct_traces"`
	Nontriv       int              `json:"distinct_nontrivial_traces"`
	Failures      []*failing       `json:"failures"`
	Samples       [][]string       `json:"samples"`
	WallS         float64          `json:"wall_s"`
	TraceKeys     []uint64         `json:"-"`
	NontrivK      []uint64         `json:"-"`
	Counts        map[string]int64 `json:"harness_counters"`
	MaxBlocked    int              `json:"max_goroutines_left_blocked"`
	Bits          uint             `json:"visited_table_bits"`
	Workers       int              `json:"worker_processes"`
	FrontierItems int              `json:"frontier_items"`
}

// judge turns one execution into failure signatures (empty = the execution satisfies the oracles).
func judge(h *harness, e *vsched.Execution, o *obs) []string {
	var sigs []string
	for _, r := range e.Races {
		sigs = append(sigs, r.Sig)
	}
	switch e.Outcome {
	case vsched.Pruned:
		return sigs
	case vsched.Deadlock:
		var parts []string
		for _, b := range e.Blocked {
			name := b[:strings.Index(b, ": ")]
			base := name[:strings.LastIndex(name, "#")]
			if base == "main" || !contains(e.Unfinished, name) {
				continue
			}
			op := b[strings.Index(b, ": ")+2:]
			if i := strings.Index(op, " @"); i >= 0 {
				op = op[:i]
			}
			parts = append(parts, base+" blocked in "+addrRe.ReplaceAllString(op, ""))
		}
		sort.Strings(parts)
		sigs = append(sigs, "deadlock:"+strings.Join(parts, "; "))
	case vsched.Horizon:
		sigs = append(sigs, "livelock:step-horizon-exceeded")
	case vsched.Panicked:
		sigs = append(sigs, "panic:"+e.Panic+":"+panicSite(e.PanicStack))
	case vsched.Completed:
		if o == nil {
			sigs = append(sigs, "harness:no-observation")
			break
		}
		for _, c := range o.calls {
			if strings.HasPrefix(c.Class, "unexpected:") {
				sigs = append(sigs, "call:"+c.Name+":"+c.Class)
			}
		}
		if !o.stateOK {
			sigs = append(sigs, "harness:state-not-read")
		} else {
			s := o.state
			if s.Pool != 0 || s.Addresses != 0 {
				sigs = append(sigs, fmt.Sprintf("after-shutdown:connection-left-registered:pool=%d,addresses=%d", s.Pool, s.Addresses))
			}
			if s.Incoming != 0 || s.Outgoing != 0 || s.DefaultOutgoing != 0 {
				sigs = append(sigs, fmt.Sprintf("after-shutdown:connection-count-left:incoming=%d,outgoing=%d,default=%d", s.Incoming, s.Outgoing, s.DefaultOutgoing))
			}
		}
	}
	return sigs
}

// addresses are run-specific detail, not part of a defect class
var addrRe = regexp.MustCompile(` ?\d+\.\d+\.\d+\.\d+:\d+((->|<-|-)\d+\.\d+\.\d+\.\d+:\d+)?`)

func contains(l []string, s string) bool {
	for _, x := range l {
		if x == s {
			return true
		}
	}
	return false
}

// panicSite: first gnet/strand function on the panicking goroutine's stack.
func panicSite(stack string) string {
	for _, line := range strings.Split(stack, "\n") {
		if strings.Contains(line, "skycoin/src/daemon/") && !strings.HasPrefix(line, "\t") {
			l := line
			if i := strings.LastIndex(l, "/"); i >= 0 {
				l = l[i+1:]
			}
			if i := strings.Index(l, "("); i >= 0 && strings.HasSuffix(l, ")") {
				// strip the argument list
				if j := strings.LastIndex(l, "("); j > 0 {
					l = l[:j]
				}
			}
			return l
		}
	}
	return "?"
}

// overlaps: which calls overlapped Shutdown (by note order).
func overlaps(notes []vsched.Note) map[string]bool {
	type iv struct{ b, e int }
	ivs := map[string]*iv{}
	for i, n := range notes {
		k := strings.LastIndex(n.Text, ":")
		if k < 0 {
			continue
		}
		name, what := n.Text[:k], n.Text[k+1:]
		v := ivs[name]
		if v == nil {
			v = &iv{b: -1, e: 1 << 30}
			ivs[name] = v
		}
		if what == "begin" {
			v.b = i
		} else if what == "end" {
			v.e = i
		}
	}
	out := map[string]bool{}
	for a, x := range ivs {
		for b, y := range ivs {
			if a == b || x.b < 0 || y.b < 0 {
				continue
			}
			if x.b < y.e && y.b < x.e && (y.b > x.b || x.b > y.b) {
				// strict interleaving: one begins inside the other
				if (x.b > y.b && x.b < y.e) || (y.b > x.b && y.b < x.e) {
					out[a+"~"+b] = true
				}
			}
		}
	}
	return out
}

var lastObs *obs
var supplementResult map[string]interface{}
var budgetEnd time.Time
var exploreNoSleep, exploreNoCache bool

func bodyOf(h *harness) func() {
	return func() {
		o := &obs{}
		lastObs = o
		h.Body(o)
	}
}

// exploreCfg says which part of a harness's schedule tree to explore and how.
type exploreCfg struct {
	bound         int
	deadline      time.Time
	maxExecs      int64
	shared        *vsched.SharedTable
	shuffle       uint64
	frontierDepth int
	onFrontier    func([]vsched.PrefixStep)
	next          func() ([]vsched.PrefixStep, bool) // work items (nil prefix = the whole tree); nil: just the whole tree
}

func exploreHarness(h *harness, cfg exploreCfg) *harnessResult {
	start := time.Now()
	bound := cfg.bound
	res := &harnessResult{Harness: h.Name, Bound: bound, Outcomes: map[string]int64{}, Classes: map[string]int64{}, Overlaps: map[string]int64{}, Counts: map[string]int64{}}
	traces := map[[2]uint64]bool{}
	nontriv := map[[2]uint64]bool{}
	fails := map[string]*failing{}
	opts := vsched.Options{Bound: bound, Horizon: 4000, Deadline: cfg.deadline, MaxExecs: cfg.maxExecs, LowPriority: lowPriority,
		Sleep: os.Getenv("VERIF_C32_SLEEP") != "" && !exploreNoSleep, NoCache: exploreNoCache, Shuffle: cfg.shuffle,
		FrontierDepth: cfg.frontierDepth, OnFrontier: cfg.onFrontier}
	if cfg.shared != nil {
		opts.Shared = cfg.shared
	}
	var sampleChoices [][]vsched.Choice
	body := bodyOf(h)
	onExec := func(e *vsched.Execution) bool {
		o := lastObs
		lastObs = nil
		for _, s := range judge(h, e, o) {
			f := fails[s]
			if f == nil {
				f = &failing{Sig: s, Harness: h.Name, Bound: bound, Choices: append([]vsched.Choice(nil), e.Choices...)}
				fails[s] = f
			}
			f.Count++
		}
		if e.Outcome == vsched.Pruned {
			// (a cut execution still counts for the overlap guard: operations without a scheduling point of their
			// own - ListeningAddress - leave no trace in the state, so the cache keeps one placement of them)
			for k := range overlaps(e.Notes) {
				res.Overlaps[k]++
			}
			return true
		}
		res.Outcomes[e.Outcome.String()]++
		if len(e.Blocked) > res.MaxBlocked {
			res.MaxBlocked = len(e.Blocked)
		}
		traces[e.TraceKey] = true
		if e.Nontrivial {
			nontriv[e.TraceKey] = true
		}
		if o != nil {
			if e.Outcome == vsched.Completed {
				cl := o.class()
				if os.Getenv("VERIF_C32_PROFILE") != "" {
					var ks []string
					for k, v := range o.counts {
						ks = append(ks, fmt.Sprintf("%s=%d", k, v))
					}
					sort.Strings(ks)
					cl += " " + strings.Join(ks, ",") + fmt.Sprintf(" blocked=%d goroutines=%d", len(e.Blocked), e.Goroutines)
				}
				res.Classes[cl]++
			}
			for k, v := range o.counts {
				res.Counts[k] += int64(v)
			}
		}
		for k := range overlaps(e.Notes) {
			res.Overlaps[k]++
		}
		if n := len(sampleChoices); n < 2 && e.Nontrivial && e.Outcome == vsched.Completed && (n == 0 || len(traces)%7 == 0) {
			sampleChoices = append(sampleChoices, append([]vsched.Choice(nil), e.Choices...))
		}
		return true
	}
	res.Stats.Bound = bound
	res.Stats.Exhaustive = true
	first := true
	for {
		var prefix []vsched.PrefixStep
		if cfg.next != nil {
			p, ok := cfg.next()
			if !ok {
				break
			}
			prefix = p
		} else if !first {
			break
		}
		first = false
		opts.Prefix = prefix
		if cfg.maxExecs > 0 {
			opts.MaxExecs = cfg.maxExecs - res.Stats.Executions - res.Stats.Pruned
			if opts.MaxExecs <= 0 {
				res.Stats.Exhaustive = false
				res.Stats.Stopped = "execution cap"
				break
			}
		}
		st := vsched.Explore(body, opts, onExec)
		res.Stats.Executions += st.Executions
		res.Stats.Pruned += st.Pruned
		res.Stats.Frontier += st.Frontier
		res.Stats.Skipped += st.Skipped
		res.Stats.Steps += st.Steps
		res.Stats.Accesses += st.Accesses
		res.Stats.CacheStates += st.CacheStates
		if st.MaxSteps > res.Stats.MaxSteps {
			res.Stats.MaxSteps = st.MaxSteps
		}
		if st.MaxGoroutines > res.Stats.MaxGoroutines {
			res.Stats.MaxGoroutines = st.MaxGoroutines
		}
		if st.MaxDepth > res.Stats.MaxDepth {
			res.Stats.MaxDepth = st.MaxDepth
		}
		if st.Broken != "" {
			res.Stats.Broken = st.Broken
			res.Stats.Exhaustive = false
			break
		}
		if !st.Exhaustive {
			res.Stats.Exhaustive = false
			res.Stats.Stopped = st.Stopped
			break
		}
	}
	res.Traces, res.Nontriv = len(traces), len(nontriv)
	for k := range traces {
		res.TraceKeys = append(res.TraceKeys, k[0])
	}
	for k := range nontriv {
		res.NontrivK = append(res.NontrivK, k[0])
	}
	for _, f := range fails {
		res.Failures = append(res.Failures, f)
	}
	sort.Slice(res.Failures, func(i, j int) bool { return res.Failures[i].Sig < res.Failures[j].Sig })
	ropts := opts
	ropts.Shared, ropts.Prefix, ropts.FrontierDepth = nil, nil, 0
	for _, ch := range sampleChoices {
		e := vsched.Replay(body, ch, ropts)
		res.Samples = append(res.Samples, traceLines(e, 60))
	}
	res.WallS = time.Since(start).Seconds()
	return res
}

func traceLines(e *vsched.Execution, max int) []string {
	var out []string
	for i, ev := range e.Trace {
		if max > 0 && i >= max {
			out = append(out, fmt.Sprintf("... (%d more steps)", len(e.Trace)-i))
			break
		}
		out = append(out, ev.String())
	}
	return out
}

// replayFailure re-executes a failing schedule with tracing and reports whether the signature shows again.
func replayFailure(f *failing) (bool, *vsched.Execution, *obs) {
	h := harnessByName(f.Harness)
	if h == nil {
		return false, nil, nil
	}
	e := vsched.Replay(bodyOf(h), f.Choices, vsched.Options{Horizon: 4000, LowPriority: lowPriority})
	o := lastObs
	lastObs = nil
	return contains(judge(h, e, o), f.Sig), e, o
}

func describe(f *failing, e *vsched.Execution, o *obs) string {
	var b strings.Builder
	fmt.Fprintf(&b, "%s (harness %s, first seen at preemption bound %d, %d failing executions): outcome=%s", f.Sig, f.Harness, f.Bound, f.Count, e.Outcome)
	if e.Outcome == vsched.Deadlock {
		fmt.Fprintf(&b, "; blocked: %s", strings.Join(e.Blocked, " || "))
	}
	if e.Outcome == vsched.Panicked {
		fmt.Fprintf(&b, "; panic in %s: %s", e.PanicG, e.Panic)
	}
	for _, r := range e.Races {
		if r.Sig == f.Sig {
			fmt.Fprintf(&b, "; %s  UNORDERED WITH  %s", r.A, r.B)
		}
	}
	if o != nil {
		fmt.Fprintf(&b, "; calls: %s", o.class())
	}
	return b.String()
}

type caseFile struct {
	Harness  string          `json:"harness"`
	Desc     string          `json:"harness_description"`
	Bound    int             `json:"preemption_bound"`
	Choices  []vsched.Choice `json:"choices"`
	Schedule []string        `json:"schedule"`
	Blocked  []string        `json:"blocked,omitempty"`
	Races    []vsched.Race   `json:"races,omitempty"`
	Panic    string          `json:"panic,omitempty"`
	Stack    string          `json:"panic_stack,omitempty"`
}

type tierPlan struct {
	harness string
	bounds  []int
}

// job is one (harness, preemption bound) exploration; capS limits its wall time (0: the rest of the budget).
type job struct {
	harness string
	bound   int
	capS    float64
}

func jobs(quick bool) []job {
	var out []job
	add := func(h string, capS float64, bounds ...int) {
		for _, b := range bounds {
			out = append(out, job{h, b, capS})
		}
	}
	if quick {
		// the tiny harnesses first (all bounds), then breadth first: bound 0 everywhere, then 1, then 2
		add("S1", 4, 0, 1, 2, 3)
		add("S8", 4, 0, 1, 2)
		add("S9", 5, 0, 1, 2)
		for _, h := range []string{"S2", "S4", "S10", "S3a", "S3b", "S3c", "S6"} {
			add(h, 8, 0)
		}
		for _, h := range []string{"S2", "S4", "S10", "S3b", "S3a", "S3c"} {
			add(h, 10, 1)
		}
		for _, h := range []string{"S2", "S4"} {
			add(h, 15, 2)
		}
		add("S12", 8, 0, 1)
		add("S11", 14, 0)
		add("S3", 16, 0)
		return out
	}
	// thorough: the tiny harnesses first, then breadth first
	add("S1", 10, 0, 1, 2, 3)
	add("S8", 10, 0, 1, 2, 3)
	add("S9", 20, 0, 1, 2, 3)
	for _, h := range []string{"S2", "S4", "S10", "S3a", "S3b", "S3c", "S6", "S5", "S3"} {
		add(h, 40, 0)
	}
	add("S7", 60, 0)
	for _, h := range []string{"S2", "S4", "S10", "S3b", "S3a", "S3c", "S6", "S5", "S7"} {
		add(h, 60, 1)
	}
	for _, h := range []string{"S2", "S4", "S10", "S3b", "S3a", "S3c", "S6"} {
		add(h, 75, 2)
	}
	for _, h := range []string{"S2", "S4"} {
		add(h, 60, 3)
	}
	add("S12", 40, 0, 1, 2)
	add("S11", 90, 0)
	add("S3", 240, 1)
	add("S11", 240, 1)
	add("S5", 90, 2)
	add("S7", 200, 2)
	add("S3b", 90, 3)
	return out
}

func c32(r *engine.Run) {
	runtime.GOMAXPROCS(1)      // the cooperative scheduler hands over between goroutines: one P avoids cross-thread wake-ups
	budget := 50 * time.Second // the build steps of ./run take another 10-30 s
	if r.Thorough() {
		budget = 13 * time.Minute
	}
	r.SetBudget(budget)
	budgetEnd = time.Now().Add(budget)
	js := jobs(r.Quick())
	if v := os.Getenv("VERIF_C32_ONLY"); v != "" {
		var p []job
		for _, x := range js {
			for _, w := range strings.Split(v, ",") {
				if w == x.harness {
					p = append(p, x)
				}
			}
		}
		js = p
	}
	var plan []tierPlan
	for _, x := range js {
		k := -1
		for i := range plan {
			if plan[i].harness == x.harness {
				k = i
			}
		}
		if k < 0 {
			plan = append(plan, tierPlan{harness: x.harness})
			k = len(plan) - 1
		}
		plan[k].bounds = append(plan[k].bounds, x.bound)
	}
	results := runPlan(r, js)
	stopWorkers()
	engine.Cleanup() // (Finish exits the process: deferred clean-up in main would not run)
	if r.Thorough() && os.Getenv("VERIF_C32_ONLY") == "" {
		supplementResult = supplement(r, 40, 240*time.Second)
	}
	report(r, plan, results)
}

// runPlan runs the jobs in order; a harness's higher bounds run only after the lower one was completed.
func runPlan(r *engine.Run, js []job) map[string][]*harnessResult {
	out := map[string][]*harnessResult{}
	dead := map[string]bool{}
	total := budgetEnd
	for _, jb := range js {
		if dead[jb.harness] {
			continue
		}
		if time.Now().After(total) {
			out[jb.harness] = append(out[jb.harness], &harnessResult{Harness: jb.harness, Bound: jb.bound, Stats: vsched.Stats{Bound: jb.bound, Stopped: "not started: time budget"},
				Outcomes: map[string]int64{}, Classes: map[string]int64{}, Overlaps: map[string]int64{}, Counts: map[string]int64{}})
			dead[jb.harness] = true
			continue
		}
		budgetEnd = total
		if jb.capS > 0 {
			if e := time.Now().Add(time.Duration(jb.capS * float64(time.Second))); e.Before(total) {
				budgetEnd = e
			}
		}
		res := swarm(r, jb.harness, jb.bound, bitsFor(jb.harness, out[jb.harness]))
		for res.Stats.Stopped == "visited table full" && res.Bits < 28 && time.Now().Before(budgetEnd) {
			res = swarm(r, jb.harness, jb.bound, res.Bits+3)
		}
		out[jb.harness] = append(out[jb.harness], res)
		fmt.Fprintf(os.Stderr, "%s bound %d: execs=%d pruned=%d skipped=%d states=%d traces=%d outcomes=%v fails=%d exhaustive=%v %s %.1fs\n", jb.harness, jb.bound,
			res.Stats.Executions, res.Stats.Pruned, res.Stats.Skipped, res.Stats.CacheStates, res.Traces, res.Outcomes, len(res.Failures), res.Stats.Exhaustive, res.Stats.Stopped, res.WallS)
		if res.Stats.Broken != "" || !res.Stats.Exhaustive {
			dead[jb.harness] = true
		}
	}
	budgetEnd = total
	return out
}

func numWorkers() int {
	if v := os.Getenv("VERIF_C32_WORKERS"); v != "" {
		if n, err := strconv.Atoi(v); err == nil && n > 0 {
			return n
		}
	}
	n := runtime.NumCPU() - 2
	if n < 1 {
		n = 1
	}
	return n
}

// swarm runs one (harness, bound) job on numWorkers() processes sharing a visited table and merges the results.
// bitsFor sizes the visited table of the next bound from the state count of the previous one.
func bitsFor(h string, prev []*harnessResult) uint {
	if len(prev) == 0 {
		switch h {
		case "S3", "S5":
			return 22 // the big harnesses have > 10^6 states at bound 0
		case "S7":
			return 22
		}
		return 19
	}
	// states grow roughly 4-8x per preemption.  The table is kept small on purpose: first-touch page faults are
	// expensive, every worker process faults every page it touches; a table that fills up (75%) makes the job
	// start again with a table 8 times larger.
	need := prev[len(prev)-1].Stats.CacheStates * 12
	bits := uint(17)
	for (int64(1) << bits) < need {
		bits++
	}
	if bits > 28 {
		bits = 28
	}
	return bits
}

// merge adds the result of a worker (or of the master's own phase) to m.
func (m *harnessResult) merge(x *harnessResult, traces, nontriv map[uint64]bool, fails map[string]*failing) {
	s := x.Stats
	m.Stats.Executions += s.Executions
	m.Stats.Pruned += s.Pruned
	m.Stats.Frontier += s.Frontier
	m.Stats.Skipped += s.Skipped
	m.Stats.Steps += s.Steps
	m.Stats.Accesses += s.Accesses
	if s.MaxSteps > m.Stats.MaxSteps {
		m.Stats.MaxSteps = s.MaxSteps
	}
	if s.MaxGoroutines > m.Stats.MaxGoroutines {
		m.Stats.MaxGoroutines = s.MaxGoroutines
	}
	if s.MaxDepth > m.Stats.MaxDepth {
		m.Stats.MaxDepth = s.MaxDepth
	}
	if !s.Exhaustive {
		m.Stats.Exhaustive = false
		if s.Stopped != "" {
			m.Stats.Stopped = s.Stopped
		}
	}
	if s.Broken != "" {
		m.Stats.Broken = s.Broken
	}
	for k, v := range x.Outcomes {
		m.Outcomes[k] += v
	}
	for k, v := range x.Classes {
		m.Classes[k] += v
	}
	for k, v := range x.Overlaps {
		m.Overlaps[k] += v
	}
	for k, v := range x.Counts {
		m.Counts[k] += v
	}
	if x.MaxBlocked > m.MaxBlocked {
		m.MaxBlocked = x.MaxBlocked
	}
	for _, k := range x.TraceKeys {
		traces[k] = true
	}
	for _, k := range x.NontrivK {
		nontriv[k] = true
	}
	for _, f := range x.Failures {
		if g := fails[f.Sig]; g == nil {
			fails[f.Sig] = f
		} else {
			g.Count += f.Count
			if len(f.Choices) < len(g.Choices) {
				g.Choices = f.Choices
			}
		}
	}
	if len(m.Samples) < 3 {
		m.Samples = append(m.Samples, x.Samples...)
	}
}

// swarm runs one (harness, bound) job.  Small trees are explored in this process.  Otherwise the master
// expands the tree down to a frontier of decision prefixes (claiming the states above it in a visited table
// shared through a memory-mapped file), and numWorkers() worker processes - one cooperative scheduler each -
// pull the prefixes from a queue and explore the subtrees, sharing the visited table so that every state is
// expanded by exactly one of them.
func swarm(r *engine.Run, harnessName string, bound int, bits uint) *harnessResult {
	start := time.Now()
	h := harnessByName(harnessName)
	m := &harnessResult{Harness: harnessName, Bound: bound, Bits: bits, Outcomes: map[string]int64{}, Classes: map[string]int64{}, Overlaps: map[string]int64{}, Counts: map[string]int64{}}
	m.Stats.Bound = bound
	m.Stats.Exhaustive = true
	traces := map[uint64]bool{}
	nontriv := map[uint64]bool{}
	fails := map[string]*failing{}
	finish := func() *harnessResult {
		m.Traces, m.Nontriv = len(traces), len(nontriv)
		for k := range traces {
			m.TraceKeys = append(m.TraceKeys, k)
		}
		for k := range nontriv {
			m.NontrivK = append(m.NontrivK, k)
		}
		for _, f := range fails {
			m.Failures = append(m.Failures, f)
		}
		sort.Slice(m.Failures, func(i, j int) bool { return m.Failures[i].Sig < m.Failures[j].Sig })
		m.WallS = time.Since(start).Seconds()
		return m
	}
	// determinism self-check: the same (default) schedule executed twice must give the identical trace
	{
		ro := vsched.Options{Horizon: 4000, LowPriority: lowPriority}
		a := vsched.Replay(bodyOf(h), nil, ro)
		b := vsched.Replay(bodyOf(h), a.Choices, ro)
		lastObs = nil
		if a.TraceKey != b.TraceKey || strings.Join(traceLines(a, 0), "\n") != strings.Join(traceLines(b, 0), "\n") || a.Outcome != b.Outcome {
			m.Stats.Broken = "nondeterminism: replaying the same schedule gave a different trace"
			m.Stats.Exhaustive = false
			return finish()
		}
	}
	// phase A: try in this process with a private cache and a small cap
	if small := exploreHarness(h, exploreCfg{bound: bound, deadline: budgetEnd, maxExecs: 3000}); small.Stats.Exhaustive || small.Stats.Broken != "" {
		m.merge(small, traces, nontriv, fails)
		m.Stats.CacheStates = small.Stats.CacheStates
		m.Workers = 1
		return finish()
	}
	// phase B: frontier + workers
	dir := engine.Scratch()
	tablePath := filepath.Join(dir, fmt.Sprintf("visited-%s-%d-%d", harnessName, bound, bits))
	defer os.Remove(tablePath)
	table, err := vsched.OpenSharedTable(tablePath, bits)
	if err != nil {
		m.Stats.Broken = "shared table: " + err.Error()
		return finish()
	}
	defer table.Close()
	n := numWorkers()
	items := [][]vsched.PrefixStep{nil}
	for depth := 6; ; depth += 4 {
		var next [][]vsched.PrefixStep
		i := 0
		part := exploreHarness(h, exploreCfg{bound: bound, deadline: budgetEnd, shared: table, frontierDepth: depth,
			onFrontier: func(p []vsched.PrefixStep) { next = append(next, append([]vsched.PrefixStep(nil), p...)) },
			next: func() ([]vsched.PrefixStep, bool) {
				if i >= len(items) {
					return nil, false
				}
				i++
				return items[i-1], true
			}})
		m.merge(part, traces, nontriv, fails)
		items = next
		if !part.Stats.Exhaustive || len(items) == 0 || len(items) >= 40*n || depth >= 70 {
			break
		}
	}
	m.FrontierItems = len(items)
	if os.Getenv("VERIF_C32_VERBOSE") != "" {
		fmt.Fprintf(os.Stderr, "  %s bound %d: frontier %d items after %.1fs (master: %d execs, %d pruned)\n", harnessName, bound, len(items), time.Since(start).Seconds(), m.Stats.Executions, m.Stats.Pruned)
	}
	if len(items) > 0 && m.Stats.Exhaustive {
		itemsPath := filepath.Join(dir, fmt.Sprintf("items-%s-%d", harnessName, bound))
		b, _ := json.Marshal(items)
		if err := os.WriteFile(itemsPath, b, 0o600); err != nil {
			m.Stats.Broken = err.Error()
			return finish()
		}
		defer os.Remove(itemsPath)
		type wres struct {
			res *harnessResult
			err string
		}
		results := make([]wres, n)
		pool := workerPool(n)
		var wg sync.WaitGroup
		for i := 0; i < n; i++ {
			wg.Add(1)
			go func(i int) {
				defer wg.Done()
				keyfile := filepath.Join(dir, fmt.Sprintf("keys-%s-%d-%d", harnessName, bound, i))
				req := workerReq{Harness: harnessName, Bound: bound, Table: tablePath, Bits: bits, Deadline: budgetEnd.UnixNano(), Keyfile: keyfile, Items: itemsPath}
				hr, err := pool[i].do(req, time.Until(budgetEnd)+60*time.Second)
				if err != nil {
					results[i].err = fmt.Sprintf("worker %d: %v", i, err)
					return
				}
				hr.TraceKeys, hr.NontrivK = readKeys(keyfile)
				os.Remove(keyfile)
				results[i].res = hr
				if os.Getenv("VERIF_C32_VERBOSE") != "" {
					fmt.Fprintf(os.Stderr, "  worker %d: execs=%d pruned=%d %.1fs (done at %.1fs)\n", i, hr.Stats.Executions, hr.Stats.Pruned, hr.WallS, time.Since(start).Seconds())
				}
			}(i)
		}
		wg.Wait()
		for _, w := range results {
			if w.res == nil {
				m.Stats.Broken = w.err
				m.Stats.Exhaustive = false
				continue
			}
			m.merge(w.res, traces, nontriv, fails)
		}
		m.Workers = n
	}
	m.Stats.CacheStates = table.Count()
	if table.IsFull() {
		m.Stats.Exhaustive = false
		m.Stats.Stopped = "visited table full"
	}
	return finish()
}

func tail(s string, n int) string {
	if len(s) > n {
		return s[len(s)-n:]
	}
	return s
}

func readKeys(path string) (all, nontriv []uint64) {
	b, err := os.ReadFile(path)
	if err != nil {
		return nil, nil
	}
	for i := 0; i+9 <= len(b); i += 9 {
		k := binary.LittleEndian.Uint64(b[i:])
		all = append(all, k)
		if b[i+8] != 0 {
			nontriv = append(nontriv, k)
		}
	}
	return
}

func init() {
	// serve: a persistent worker process; one JSON request per line on stdin, one JSON result per line on stdout
	workers["serve"] = func(args []string) {
		runtime.GOMAXPROCS(1)
		in := bufio.NewReaderSize(os.Stdin, 1<<16)
		out := json.NewEncoder(os.Stdout)
		for {
			line, err := in.ReadBytes('\n')
			if len(line) > 0 {
				var req workerReq
				if json.Unmarshal(line, &req) != nil {
					os.Exit(4)
				}
				out.Encode(serveOne(req))
			}
			if err != nil {
				return
			}
		}
	}
}

type workerReq struct {
	Harness  string `json:"harness"`
	Bound    int    `json:"bound"`
	Table    string `json:"table"`
	Bits     uint   `json:"bits"`
	Deadline int64  `json:"deadline"`
	Keyfile  string `json:"keyfile"`
	Items    string `json:"items"`
}

func serveOne(req workerReq) *harnessResult {
	fail := func(msg string) *harnessResult {
		return &harnessResult{Harness: req.Harness, Bound: req.Bound, Stats: vsched.Stats{Bound: req.Bound, Broken: msg}}
	}
	h := harnessByName(req.Harness)
	if h == nil {
		return fail("unknown harness")
	}
	t, err := vsched.OpenSharedTable(req.Table, req.Bits)
	if err != nil {
		return fail(err.Error())
	}
	defer t.Close()
	var items [][]vsched.PrefixStep
	if b, err := os.ReadFile(req.Items); err != nil || json.Unmarshal(b, &items) != nil {
		return fail("items file unreadable")
	}
	res := exploreHarness(h, exploreCfg{bound: req.Bound, deadline: time.Unix(0, req.Deadline), shared: t, next: func() ([]vsched.PrefixStep, bool) {
		i := t.NextItem()
		if i >= int64(len(items)) {
			return nil, false
		}
		return items[i], true
	}})
	if t.IsFull() {
		res.Stats.Exhaustive = false
		res.Stats.Stopped = "visited table full"
	}
	var buf []byte
	nt := map[uint64]bool{}
	for _, k := range res.NontrivK {
		nt[k] = true
	}
	for _, k := range res.TraceKeys {
		var rec [9]byte
		binary.LittleEndian.PutUint64(rec[:], k)
		if nt[k] {
			rec[8] = 1
		}
		buf = append(buf, rec[:]...)
	}
	if err := os.WriteFile(req.Keyfile, buf, 0o600); err != nil {
		return fail(err.Error())
	}
	return res
}

// procWorker is a persistent worker process of the master.
type procWorker struct {
	cmd *exec.Cmd
	in  io.WriteCloser
	out *bufio.Reader
	bad bool
}

var procPool []*procWorker

func workerPool(n int) []*procWorker {
	for len(procPool) < n {
		procPool = append(procPool, nil)
	}
	for i := 0; i < n; i++ {
		if procPool[i] == nil || procPool[i].bad {
			procPool[i] = startWorker()
		}
	}
	return procPool
}

func startWorker() *procWorker {
	exe, _ := os.Executable()
	cmd := exec.Command(exe, "--worker", "serve")
	cmd.Env = append(os.Environ(), "GOMAXPROCS=1")
	cmd.Stderr = os.Stderr
	in, err1 := cmd.StdinPipe()
	out, err2 := cmd.StdoutPipe()
	w := &procWorker{cmd: cmd, in: in}
	if err1 != nil || err2 != nil || cmd.Start() != nil {
		w.bad = true
		return w
	}
	w.out = bufio.NewReaderSize(out, 1<<20)
	return w
}

func (w *procWorker) do(req workerReq, limit time.Duration) (*harnessResult, error) {
	if w.bad {
		return nil, fmt.Errorf("worker process could not be started")
	}
	b, _ := json.Marshal(req)
	if _, err := w.in.Write(append(b, '\n')); err != nil {
		w.bad = true
		return nil, err
	}
	type reply struct {
		line []byte
		err  error
	}
	ch := make(chan reply, 1)
	go func() {
		line, err := w.out.ReadBytes('\n')
		ch <- reply{line, err}
	}()
	select {
	case r := <-ch:
		if r.err != nil {
			w.bad = true
			return nil, fmt.Errorf("worker died: %v", r.err)
		}
		var hr harnessResult
		if err := json.Unmarshal(r.line, &hr); err != nil {
			w.bad = true
			return nil, fmt.Errorf("bad worker output: %v", err)
		}
		return &hr, nil
	case <-time.After(limit):
		w.bad = true
		w.cmd.Process.Kill()
		return nil, fmt.Errorf("worker did not answer within %s", limit)
	}
}

func stopWorkers() {
	for _, w := range procPool {
		if w != nil && !w.bad {
			w.in.Close()
			w.cmd.Process.Kill()
			w.cmd.Wait()
		}
	}
	procPool = nil
}

func report(r *engine.Run, plan []tierPlan, results map[string][]*harnessResult) {
	cov := engine.Coverage{}
	var evals, pruned, steps, accesses int64
	allTraces := map[string]bool{}
	allNontriv := map[string]bool{}
	perHarness := map[string]interface{}{}
	exhaustive := true
	var samples []interface{}
	hist := map[string]int64{}
	maxG, maxSteps := 0, 0
	seenSig := map[string]bool{}
	notRun := []string{}
	for _, p := range plan {
		h := harnessByName(p.harness)
		var rows []interface{}
		completedBound := -1
		classes := map[string]bool{}
		ov := map[string]int64{}
		for _, res := range results[p.harness] {
			if res.Stats.Broken != "" {
				r.Broken("%s bound %d: %s", p.harness, res.Bound, res.Stats.Broken)
			}
			evals += res.Stats.Executions
			pruned += res.Stats.Pruned
			steps += res.Stats.Steps
			accesses += res.Stats.Accesses
			for _, k := range res.TraceKeys {
				allTraces[fmt.Sprintf("%s/%x", p.harness, k)] = true
			}
			for _, k := range res.NontrivK {
				allNontriv[fmt.Sprintf("%s/%x", p.harness, k)] = true
			}
			for k, v := range res.Outcomes {
				hist[p.harness+":"+k] += v
			}
			for k := range res.Classes {
				classes[k] = true
			}
			for k, v := range res.Overlaps {
				ov[k] += v
			}
			if res.Stats.MaxGoroutines > maxG {
				maxG = res.Stats.MaxGoroutines
			}
			if res.Stats.MaxSteps > maxSteps {
				maxSteps = res.Stats.MaxSteps
			}
			if res.Stats.Exhaustive {
				completedBound = res.Bound
			} else {
				exhaustive = false
			}
			rows = append(rows, map[string]interface{}{
				"preemption_bound": res.Bound, "complete_interleavings": res.Stats.Executions, "pruned_by_state_cache": res.Stats.Pruned,
				"cache_states": res.Stats.CacheStates, "distinct_traces": res.Traces, "distinct_nontrivial_traces": res.Nontriv,
				"max_steps": res.Stats.MaxSteps, "max_goroutines": res.Stats.MaxGoroutines, "max_decision_depth": res.Stats.MaxDepth,
				"exhaustive_within_bound": res.Stats.Exhaustive, "stopped": res.Stats.Stopped, "outcomes": res.Outcomes,
				"race_monitor_accesses": res.Stats.Accesses, "wall_s": res.WallS, "max_goroutines_left_blocked": res.MaxBlocked,
				"harness_counters": res.Counts,
			})
			for _, f := range res.Failures {
				if seenSig[f.Sig] {
					continue
				}
				seenSig[f.Sig] = true
				f := f
				ok, e, o := replayFailure(f)
				if !ok {
					r.Broken("flaky: %s (harness %s) does not reproduce from its schedule", f.Sig, f.Harness)
					continue
				}
				cf := caseFile{Harness: f.Harness, Desc: h.Desc, Bound: f.Bound, Choices: f.Choices, Schedule: traceLines(e, 0), Blocked: e.Blocked, Panic: e.Panic, Stack: e.PanicStack}
				for _, rc := range e.Races {
					if rc.Sig == f.Sig {
						cf.Races = append(cf.Races, rc)
					}
				}
				r.Fail(engine.Failure{Sig: f.Sig, Detail: describe(f, e, o), Case: cf, Repro: func() bool { ok, _, _ := replayFailure(f); return ok }})
			}
			if len(samples) < 6 && len(res.Samples) > 0 && res.Bound == p.bounds[len(p.bounds)-1] {
				samples = append(samples, map[string]interface{}{"harness": p.harness, "preemption_bound": res.Bound, "schedule": res.Samples[len(res.Samples)-1]})
			}
		}
		cl := []string{}
		for k := range classes {
			cl = append(cl, k)
		}
		sort.Strings(cl)
		perHarness[p.harness] = map[string]interface{}{"description": h.Desc, "bounds": rows, "preemption_bound_completed": completedBound,
			"distinct_result_classes": cl, "overlap_counts": ov}
		// vacuity guards
		nt := 0
		for _, res := range results[p.harness] {
			if res.Traces > nt {
				nt = res.Traces
			}
		}
		ran := int64(0)
		for _, res := range results[p.harness] {
			ran += res.Stats.Executions
		}
		if ran == 0 {
			notRun = append(notRun, p.harness)
			continue // no time left for this harness: reported, not judged
		}
		if nt < 2 {
			r.Broken("vacuous: harness %s produced %d distinct trace(s)", p.harness, nt)
		}
		for _, c := range h.Overlap {
			if ov[c+"~Shutdown"]+ov["Shutdown~"+c] == 0 {
				r.Broken("vacuous: harness %s never interleaved %s with Shutdown", p.harness, c)
			}
		}
		if h.Overlap2[0] != "" && ov[h.Overlap2[0]+"~"+h.Overlap2[1]]+ov[h.Overlap2[1]+"~"+h.Overlap2[0]] == 0 {
			r.Broken("vacuous: harness %s never interleaved %s with %s", p.harness, h.Overlap2[0], h.Overlap2[1])
		}
	}
	cov["harnesses_not_run_for_lack_of_time"] = notRun
	cov["evaluations"] = evals
	cov["distinct_nontrivial"] = len(allNontriv)
	cov["distinct_traces"] = len(allTraces)
	cov["rule"] = "a complete interleaving counts as non-trivial when it contains at least one context switch between two goroutines that operate on a common synchronisation object (channel, mutex, waitgroup, listener or connection); DISTINCT = distinct canonical (Mazurkiewicz) traces, identified by the hash of every goroutine's causal history, per harness"
	cov["samples"] = samples
	cov["exhaustive"] = exhaustive
	cov["pruned_by_state_cache"] = pruned
	cov["scheduling_steps"] = steps
	cov["race_monitor_accesses_checked"] = accesses
	cov["max_goroutines"] = maxG
	cov["max_steps_per_execution"] = maxSteps
	cov["step_horizon"] = 4000
	cov["outcome_histogram"] = hist
	cov["harnesses"] = perHarness
	if supplementResult != nil {
		cov["supplement_free_running_race_detector"] = supplementResult
	}
	if rep := rewriteReport(); rep != nil {
		cov["rewriter"] = rep
	} else {
		r.Broken("rewrite report missing")
	}
	r.Assumptions = append(r.Assumptions, assumptions...)
	r.Finish(cov)
}

func rewriteReport() interface{} {
	exe, err := os.Executable()
	if err != nil {
		return nil
	}
	b, err := os.ReadFile(filepath.Join(filepath.Dir(exe), "_schedgen", "sched_rewrite_report.json"))
	if err != nil {
		return nil
	}
	var v map[string]interface{}
	if json.Unmarshal(b, &v) != nil {
		return nil
	}
	return map[string]interface{}{"totals": v["totals"], "instrumented_fields": v["fields"], "excluded_fields": v["excluded_fields"], "rewritten_files": v["rewritten_files"]}
}

var assumptions = []string{
	"Interleavings are explored at the granularity of the rewritten operations (go, channel send/recv/close/select, sync.Mutex/WaitGroup, net Listen/Dial/Accept/Read/Write/Close/Set*Deadline); code between two such operations runs atomically. Weak-memory effects are out of scope.",
	"Bounded: every schedule with at most the stated number of preemptions per harness (a switch away from a goroutine that could continue is a preemption; switches at blocking points are free and ALL of them are explored). 'exhaustive' refers to this bounded space for every (harness, bound) job of the tier; per-harness 'preemption_bound_completed' says how far each harness got.",
	"State cache (the only reduction used): an option of a decision point is dropped when the state it leads to - identified by a 120-bit hash of every goroutine's causal history (Merkle hash over its operations and, through the objects, over the operations it depends on) plus the goroutine that may continue for free - was already expanded with at least the same remaining preemption budget. Equal causal histories imply equal states provided all shared memory is accessed under happens-before ordering, which the race monitor checks in the same run (a race is itself a violation). The reduction was cross-checked against brute force on harness S2 (532 666 executions without cache: the same 119 canonical traces). WaitGroup.Add/Done are treated as commuting updates, receives on closed drained channels and select-default as pure reads. A hash collision could hide a schedule.",
	"Parallel exploration: worker processes (one cooperative scheduler each) share the visited-state table through a memory-mapped file; a state claimed by one worker is expanded only by it. Complete only if no worker is stopped by the time budget (then exhaustive=false for that job).",
	"The per-call logging goroutine of strand.Strand is kept (real code) but scheduled only when no other goroutine is enabled and never preempted into: its only operations are receives on channels that are never sent on (quit, done) and a timer that never fires, which commute with every other operation; the explorer verifies this at run time and reports CHECK-BROKEN if such a goroutine performs any other operation. Removing one of its steps from a schedule never increases the preemption count of the rest.",
	"Select fairness: a goroutine that comes straight back to the same select after receiving from a closed, drained channel (sendLoop's `case m := <-conn.WriteQueue: if m == nil { continue }` after Close) is not offered that alternative again while another one is ready, and when it is the only ready alternative the goroutine is treated as yielding (it runs only when nothing else can). Its iterations are pure reads that change nothing outside the goroutine; Go's select picks uniformly, so the unbounded repetition has probability 0. A spin that never ends shows up as the step horizon (livelock) violation.",
	"Virtual timers never fire (strand timers only log; dial/read/write deadlines never expire). The network is an in-memory model (shim/vnet): dial succeeds at once when someone listens, unbounded socket buffers, Close makes the peer read EOF; no partial writes, no half-open connections, no happens-before through sockets.",
	"Harnesses S2-S7 and S9 reach their starting state (Run accepting, peers connected) by ONE canonical schedule of the set-up phase (first-enabled, non-preemptive); only the concurrent phase is explored. In S3c, S5 and S7 (scenarios without Shutdown) the final Shutdown, issued after the concurrent calls returned, also runs under one canonical schedule. S3 (three concurrent operations) is also explored as the three pairs S3a/S3b/S3c, which reach higher bounds.",
	"Race monitor: vector clocks advanced by go, channel send->receive (and receive->send for unbuffered / the k-th receive -> k+cap-th send), close->receive, Unlock->Lock, Done->Wait. Monitored locations: every field of gnet.ConnectionPool and gnet.Connection except the sync objects (coverage.rewriter.instrumented_fields; map element operations count as accesses of the map field), and every local variable of gnet/strand functions that is captured by a function literal which may run on another goroutine and is assigned after its declaration (signatures race:local:<var>@<func>). Objects behind pointers (bytes.Buffer contents, message values) are not monitored.",
	"Supplement (thorough only): `go test -race` of the same scenarios on the un-rewritten code with real goroutines and loopback TCP is sampling; it can add findings (signatures supplement:*), it clears nothing.",
}
