package main

import (
	"encoding/binary"
	"errors"
	"fmt"
	"io"
	"strings"
	"time"

	"github.com/skycoin/skycoin/src/daemon/gnet"

	"verif/shim/vnet"
	"verif/shim/vsched"
	"verif/shim/vsync"
)

// ---- the message type exchanged in the harnesses ---------------------------------------------------------

type pingMsg struct{ X uint32 }

func (m *pingMsg) EncodeSize() uint64 { return 4 }
func (m *pingMsg) Encode(b []byte) error {
	if len(b) < 4 {
		return errors.New("short buffer")
	}
	binary.LittleEndian.PutUint32(b, m.X)
	return nil
}
func (m *pingMsg) Decode(b []byte) (uint64, error) {
	if len(b) < 4 {
		return 0, errors.New("short")
	}
	m.X = binary.LittleEndian.Uint32(b)
	return 4, nil
}

// handlerState is the pool's message state: what the handler of an inbound pingMsg does.
type handlerState struct {
	o     *obs
	pool  *gnet.ConnectionPool
	reply bool
}

func (m *pingMsg) Handle(ctx *gnet.MessageContext, state interface{}) error {
	h, _ := state.(*handlerState)
	if h == nil {
		return nil
	}
	h.o.count("handler-called")
	if h.reply {
		// strand re-entry from the handler goroutine
		call(h.o, "SendMessage(handler)", func() error { return h.pool.SendMessage(ctx.Addr, &pingMsg{X: m.X + 1}) })
	}
	return nil
}

func init() {
	gnet.RegisterMessage(gnet.MessagePrefixFromString("PING"), pingMsg{})
	gnet.VerifyMessages()
}

// ---- observations -----------------------------------------------------------------------------------------

type callRes struct {
	Name  string
	Class string // ok | closed | documented:<which> | unexpected:<text>
}

type obs struct {
	calls   []callRes
	state   gnet.VerifPoolState
	stateOK bool
	counts  map[string]int
}

func (o *obs) count(k string) {
	if o.counts == nil {
		o.counts = map[string]int{}
	}
	o.counts[k]++
}

// documented errors per call (anything else that is not nil / ErrConnectionPoolClosed is a violation)
func classify(name string, err error) string {
	if err == nil {
		return "ok"
	}
	if err == gnet.ErrConnectionPoolClosed {
		return "closed"
	}
	base := name
	if i := strings.IndexByte(base, '('); i >= 0 {
		base = base[:i]
	}
	msg := err.Error()
	switch base {
	case "SendPings":
		if err == gnet.ErrWriteQueueFull {
			return "documented:write-queue-full"
		}
		if strings.HasPrefix(msg, "Tried to send") && strings.HasSuffix(msg, "but we are not connected") {
			return "documented:not-connected"
		}
	case "SendMessage":
		if err == gnet.ErrWriteQueueFull {
			return "documented:write-queue-full"
		}
		if strings.HasPrefix(msg, "Tried to send") && strings.HasSuffix(msg, "but we are not connected") {
			return "documented:not-connected"
		}
	case "Disconnect":
		if msg == "Disconnect: connection does not exist" {
			return "documented:no-such-connection"
		}
	case "Connect":
		switch err {
		case gnet.ErrConnectionExists:
			return "documented:connection-exists"
		case gnet.ErrMaxOutgoingConnectionsReached, gnet.ErrMaxOutgoingDefaultConnectionsReached:
			return "documented:max-outgoing"
		}
		var oe *vnet.OpError
		if errors.As(err, &oe) {
			return "documented:dial-failed"
		}
	case "BroadcastMessage":
		switch err {
		case gnet.ErrPoolEmpty:
			return "documented:pool-empty"
		case gnet.ErrNoMatchingConnections:
			return "documented:no-matching"
		case gnet.ErrNoReachableConnections:
			return "documented:unreachable"
		case gnet.ErrNoAddresses:
			return "documented:no-addresses"
		}
	case "ListeningAddress":
		if msg == "Not listening, call StartListen first" {
			return "documented:not-listening"
		}
	case "Run":
		var oe *vnet.OpError
		if errors.As(err, &oe) {
			return "documented:listen-failed"
		}
	}
	if len(msg) > 60 {
		msg = msg[:60]
	}
	return "unexpected:" + msg
}

func call(o *obs, name string, f func() error) {
	vsched.Mark(name + ":begin")
	err := f()
	vsched.Mark(name + ":end")
	o.calls = append(o.calls, callRes{Name: name, Class: classify(name, err)})
}

// ---- harness plumbing -------------------------------------------------------------------------------------

const (
	poolAddr = "127.0.0.1:7000"
	peerA    = "127.0.0.1:50001"
	peerB    = "127.0.0.1:50002"
	remote   = "127.0.0.1:8000"
)

type env struct {
	o    *obs
	pool *gnet.ConnectionPool
	hs   *handlerState
	wg   vsync.WaitGroup // concurrent phase
	bg   vsync.WaitGroup // background threads (Run, peers) that must end by themselves after Shutdown
}

func newEnv(o *obs, reply bool) *env {
	e := &env{o: o}
	vsync.Init(&e.wg, "harness.wg")
	vsync.Init(&e.bg, "harness.bg")
	cfg := gnet.NewConfig()
	cfg.Address = "127.0.0.1"
	cfg.Port = 7000
	cfg.ConnectionWriteQueueSize = 2
	cfg.SendResultsSize = 8
	cfg.MaxOutgoingMessageLength = 1024
	cfg.MaxIncomingMessageLength = 1024
	// the outgoing target and the first incoming peer are "default peers": their bookkeeping (defaultOutgoingConnections, the
	// default-peer branches of Connect/Disconnect) only runs for addresses of this list
	cfg.DefaultConnections = []string{remote, peerA}
	cfg.ConnectCallback = func(addr string, id uint64, solicited bool) { o.count("connect-callback") }
	cfg.DisconnectCallback = func(addr string, id uint64, r gnet.DisconnectReason) { o.count("disconnect-callback") }
	cfg.ConnectFailureCallback = func(addr string, solicited bool, err error) { o.count("connect-failure-callback") }
	e.hs = &handlerState{o: o, reply: reply}
	pool, err := gnet.NewConnectionPool(cfg, e.hs)
	if err != nil {
		panic(err)
	}
	e.pool = pool
	e.hs.pool = pool
	return e
}

// thread starts a harness thread of the concurrent phase.
func (e *env) thread(name string, f func()) {
	e.wg.Add(1)
	vsched.GoNamed(name, func() {
		defer e.wg.Done()
		f()
	})
}

func (e *env) background(name string, f func()) {
	e.bg.Add(1)
	vsched.GoNamed(name, func() {
		defer e.bg.Done()
		f()
	})
}

func (e *env) run() {
	e.background("Run", func() { call(e.o, "Run", e.pool.Run) })
}

func (e *env) shutdown() {
	call(e.o, "Shutdown", func() error { e.pool.Shutdown(); return nil })
}

// peer is a scripted remote node: dial, optionally send one message, optionally close early, then read until
// the pool closes the connection.
type peerScript struct {
	local     string
	send      bool
	closeSoon bool
}

func (e *env) peerBody(ps peerScript) func() {
	return func() {
		c, err := vnet.DialFrom(ps.local, poolAddr)
		if err != nil {
			e.o.count("peer-dial-refused")
			return
		}
		e.o.count("peer-dialed")
		if ps.send {
			b, err := gnet.EncodeMessage(&pingMsg{X: 7})
			if err != nil {
				panic(err)
			}
			if _, err := c.Write(b); err != nil {
				e.o.count("peer-write-failed")
			}
		}
		if !ps.closeSoon {
			drain(c)
		}
		c.Close()
	}
}

func drain(c vnet.Conn) {
	buf := make([]byte, 256)
	for {
		if _, err := c.Read(buf); err != nil {
			if err != io.EOF {
				_ = err
			}
			return
		}
	}
}

// finish waits for the concurrent phase, optionally shuts down, waits for Run and the peers, reads the state.
func (e *env) finish(shutdownAfter bool) {
	e.wg.Wait()
	if shutdownAfter {
		// Shutdown is not part of this scenario: it only cleans up (and lets the final state be checked), under one
		// canonical schedule.  Its interleavings with everything else are the subject of the other harnesses.
		vsched.StopExploring()
		e.shutdown()
	}
	e.bg.Wait()
	e.o.state = gnet.VerifState(e.pool)
	e.o.stateOK = true
}

type harness struct {
	Name     string
	Desc     string
	Overlap  []string // calls that must be seen overlapping Shutdown in at least one interleaving (vacuity guard)
	Overlap2 [2]string
	Body     func(o *obs)
}

var harnesses = []harness{
	{Name: "S1", Desc: "Run || Shutdown", Overlap: []string{"Run"}, Body: func(o *obs) {
		e := newEnv(o, false)
		vsched.StartExploring()
		e.run()
		e.thread("Shutdown", e.shutdown)
		e.finish(false)
	}},
	{Name: "S2", Desc: "incoming connect || Shutdown (Run already accepting)", Overlap: []string{"peer"}, Body: func(o *obs) {
		e := newEnv(o, false)
		e.run()
		vsched.Quiesce()
		vsched.StartExploring()
		e.background("peer", func() {
			vsched.Mark("peer:begin")
			e.peerBody(peerScript{local: peerA})()
			vsched.Mark("peer:end")
		})
		e.thread("Shutdown", e.shutdown)
		e.finish(false)
	}},
	s3("S3", "established connection: SendMessage || Disconnect || Shutdown", true, true, true),
	s3("S3a", "established connection: SendMessage || Shutdown", true, false, true),
	s3("S3b", "established connection: Disconnect || Shutdown", false, true, true),
	s3("S3c", "established connection: SendMessage || Disconnect (then Shutdown)", true, true, false),
	{Name: "S4", Desc: "outgoing Connect || Shutdown", Overlap: []string{"Connect"}, Body: func(o *obs) {
		e := newEnv(o, false)
		e.run()
		ln, err := vnet.Listen("tcp", remote)
		if err != nil {
			panic(err)
		}
		e.background("remote-node", func() {
			c, err := ln.Accept()
			if err != nil {
				return
			}
			o.count("remote-accepted")
			drain(c)
			c.Close()
		})
		vsched.Quiesce()
		vsched.StartExploring()
		e.thread("Connect", func() {
			call(o, "Connect", func() error { return e.pool.Connect(remote) })
		})
		e.thread("Shutdown", e.shutdown)
		e.wg.Wait()
		ln.Close()
		e.finish(false)
	}},
	{Name: "S5", Desc: "BroadcastMessage || peer closes || ListeningAddress/GetConnections/Size (then Shutdown)", Overlap2: [2]string{"BroadcastMessage", "peer-close"}, Body: func(o *obs) {
		e := newEnv(o, false)
		e.run()
		var closeA vsync.WaitGroup
		vsync.Init(&closeA, "closeA")
		closeA.Add(1)
		e.background("peerA", func() {
			c, err := vnet.DialFrom(peerA, poolAddr)
			if err != nil {
				panic(err)
			}
			closeA.Wait()
			vsched.Mark("peer-close:begin")
			c.Close()
			vsched.Mark("peer-close:end")
		})
		vsched.Quiesce()
		vsched.StartExploring()
		closeA.Done()
		e.thread("Broadcast", func() {
			call(o, "BroadcastMessage", func() error {
				_, err := e.pool.BroadcastMessage(&pingMsg{X: 2}, []string{peerA, peerB})
				return err
			})
		})
		e.thread("Queries", func() {
			call(o, "ListeningAddress", func() error { _, err := e.pool.ListeningAddress(); return err })
			call(o, "GetConnections", func() error { _, err := e.pool.GetConnections(); return err })
			call(o, "Size", func() error { _, err := e.pool.Size(); return err })
		})
		e.finish(true)
	}},
	{Name: "S6", Desc: "inbound message whose handler calls SendMessage (strand re-entry) || Shutdown", Overlap: []string{"SendMessage(handler)"}, Body: func(o *obs) {
		e := newEnv(o, true)
		e.run()
		var goAhead vsync.WaitGroup
		vsync.Init(&goAhead, "goAhead")
		goAhead.Add(1)
		e.background("peer", func() {
			c, err := vnet.DialFrom(peerA, poolAddr)
			if err != nil {
				panic(err)
			}
			goAhead.Wait()
			b, _ := gnet.EncodeMessage(&pingMsg{X: 7})
			if _, err := c.Write(b); err != nil {
				o.count("peer-write-failed")
			}
			drain(c)
			c.Close()
		})
		vsched.Quiesce()
		vsched.StartExploring()
		goAhead.Done()
		e.thread("Shutdown", e.shutdown)
		e.finish(false)
	}},
	{Name: "S7", Desc: "second incoming connection from the address of an established one || Disconnect of that address (then Shutdown)", Overlap2: [2]string{"Disconnect", "peer2"}, Body: func(o *obs) {
		e := newEnv(o, false)
		e.run()
		e.background("peer1", e.peerBody(peerScript{local: peerA}))
		vsched.Quiesce()
		vsched.StartExploring()
		e.background("peer2", func() {
			vsched.Mark("peer2:begin")
			e.peerBody(peerScript{local: peerA})()
			vsched.Mark("peer2:end")
		})
		e.thread("Disconnect", func() {
			call(o, "Disconnect", func() error { return e.pool.Disconnect(peerA, errors.New("harness disconnect")) })
		})
		e.finish(true)
	}},

	{Name: "S8", Desc: "Run || ListeningAddress || Shutdown", Overlap: []string{"Run", "ListeningAddress"}, Body: func(o *obs) {
		e := newEnv(o, false)
		vsched.StartExploring()
		e.run()
		e.thread("ListeningAddress", func() {
			call(o, "ListeningAddress", func() error { _, err := e.pool.ListeningAddress(); return err })
		})
		e.thread("Shutdown", e.shutdown)
		e.finish(false)
	}},
	{Name: "S11", Desc: "established connection busy in both directions: inbound message || SendMessage || Shutdown", Overlap: []string{"SendMessage"}, Body: func(o *obs) {
		e := newEnv(o, false)
		e.run()
		var goAhead vsync.WaitGroup
		vsync.Init(&goAhead, "goAhead")
		goAhead.Add(1)
		e.background("peer", func() {
			c, err := vnet.DialFrom(peerA, poolAddr)
			if err != nil {
				panic(err)
			}
			goAhead.Wait()
			b, _ := gnet.EncodeMessage(&pingMsg{X: 7})
			if _, err := c.Write(b); err != nil {
				o.count("peer-write-failed")
			}
			drain(c)
			c.Close()
		})
		vsched.Quiesce()
		vsched.StartExploring()
		goAhead.Done()
		e.thread("SendMessage", func() {
			call(o, "SendMessage", func() error { return e.pool.SendMessage(peerA, &pingMsg{X: 1}) })
		})
		e.thread("Shutdown", e.shutdown)
		e.finish(false)
	}},
	{Name: "S12", Desc: "peer that has stopped reading, write queue full: SendPings || Size || Shutdown", Overlap: []string{"SendPings"}, Body: func(o *obs) {
		e := newEnv(o, false)
		e.run()
		vnet.SetPipeLimit(8) // one 12-byte message fits, the second Write stalls
		var release vsync.WaitGroup
		vsync.Init(&release, "release")
		release.Add(1)
		e.background("stalled-peer", func() {
			c, err := vnet.DialFrom(peerA, poolAddr)
			if err != nil {
				panic(err)
			}
			release.Wait() // never reads
			c.Close()
		})
		vsched.Quiesce()
		// fill up: message 1 is written, message 2 stalls the send loop in Write, messages 3 and 4 fill the queue of 2
		for i := 0; i < 6; i++ {
			err := e.pool.SendMessage(peerA, &pingMsg{X: uint32(i)})
			vsched.Quiesce()
			if err == gnet.ErrWriteQueueFull {
				o.count("setup:queue-full")
				break
			}
		}
		vsched.StartExploring()
		e.thread("SendPings", func() {
			// a negative rate: every connection counts as idle long enough
			call(o, "SendPings", func() error { return e.pool.SendPings(-time.Hour, &pingMsg{X: 99}) })
		})
		e.thread("Size", func() {
			call(o, "Size", func() error { _, err := e.pool.Size(); return err })
		})
		e.thread("Shutdown", e.shutdown)
		e.wg.Wait()
		release.Done()
		e.finish(false)
	}},
	{Name: "S10", Desc: "outgoing Connect to a default peer || IsMaxOutgoingDefaultConnectionsReached, Disconnect of that peer (then Shutdown)", Overlap2: [2]string{"Connect", "Disconnect"}, Body: func(o *obs) {
		e := newEnv(o, false)
		e.run()
		ln, err := vnet.Listen("tcp", remote)
		if err != nil {
			panic(err)
		}
		e.background("remote-node", func() {
			c, err := ln.Accept()
			if err != nil {
				return
			}
			o.count("remote-accepted")
			drain(c)
			c.Close()
		})
		vsched.Quiesce()
		vsched.StartExploring()
		e.thread("Connect", func() {
			call(o, "Connect", func() error { return e.pool.Connect(remote) })
		})
		e.thread("Disconnect", func() {
			call(o, "IsMaxOutgoingDefaultConnectionsReached", func() error { e.pool.IsMaxOutgoingDefaultConnectionsReached(); return nil })
			call(o, "Disconnect", func() error { return e.pool.Disconnect(remote, errors.New("harness disconnect")) })
		})
		e.wg.Wait()
		ln.Close()
		e.finish(true)
	}},
	{Name: "S9", Desc: "Size || GetConnections || Shutdown (Run already accepting, no connection)", Overlap: []string{"Size", "GetConnections"}, Body: func(o *obs) {
		e := newEnv(o, false)
		e.run()
		vsched.Quiesce()
		vsched.StartExploring()
		e.thread("Size", func() {
			call(o, "Size", func() error { _, err := e.pool.Size(); return err })
		})
		e.thread("GetConnections", func() {
			call(o, "GetConnections", func() error { _, err := e.pool.GetConnections(); return err })
		})
		e.thread("Shutdown", e.shutdown)
		e.finish(false)
	}},
}

// s3 builds the established-connection harness with the chosen subset of concurrent operations.
func s3(name, desc string, send, disc, shut bool) harness {
	h := harness{Name: name, Desc: desc}
	if shut {
		if send {
			h.Overlap = append(h.Overlap, "SendMessage")
		}
		if disc {
			h.Overlap = append(h.Overlap, "Disconnect")
		}
	} else {
		h.Overlap2 = [2]string{"SendMessage", "Disconnect"}
	}
	h.Body = func(o *obs) {
		e := newEnv(o, false)
		e.run()
		e.background("peer", e.peerBody(peerScript{local: peerA}))
		vsched.Quiesce()
		vsched.StartExploring()
		if send {
			e.thread("SendMessage", func() {
				call(o, "SendMessage", func() error { return e.pool.SendMessage(peerA, &pingMsg{X: 1}) })
			})
		}
		if disc {
			e.thread("Disconnect", func() {
				call(o, "Disconnect", func() error { return e.pool.Disconnect(peerA, errors.New("harness disconnect")) })
			})
		}
		if shut {
			e.thread("Shutdown", e.shutdown)
		}
		e.finish(!shut)
	}
	return h
}

func harnessByName(n string) *harness {
	for i := range harnesses {
		if harnesses[i].Name == n {
			return &harnesses[i]
		}
	}
	return nil
}

func (o *obs) class() string {
	var parts []string
	for _, c := range o.calls {
		parts = append(parts, c.Name+"="+c.Class)
	}
	// calls complete in schedule-dependent order: canonical order
	sortStrings(parts)
	s := strings.Join(parts, ",")
	if o.stateOK {
		s += fmt.Sprintf(" state=%+v", o.state)
	}
	return s
}
