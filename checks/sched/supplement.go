package main

import (
	"bytes"
	"context"
	"fmt"
	"os"
	"os/exec"
	"sort"
	"strings"
	"time"

	"verif/engine"
)

// supplement (thorough tier only): the scenario bodies of checks/sched/supplement on the UN-rewritten code,
// real goroutines, real loopback TCP, `go test -race`, N iterations with random delays.  Sampling: it can add
// findings (data races reported by the Go race detector in gnet/strand code, Shutdown not returning), it
// cannot clear anything.  Returns a summary for the evidence file.
func supplement(r *engine.Run, iterations int, limit time.Duration) map[string]interface{} {
	out := map[string]interface{}{"iterations_per_scenario": iterations, "ran": false}
	ctx, cancel := context.WithTimeout(context.Background(), limit)
	defer cancel()
	cmd := exec.CommandContext(ctx, "go", "test", "-race", "-v", "-count=1", "-timeout", "600s", "./checks/sched/supplement", "-args", "-n", fmt.Sprint(iterations))
	cmd.Dir = engine.Root
	cmd.Env = append(os.Environ(), "GOFLAGS=-mod=mod", "GOPROXY=off", "GOSUMDB=off", "GOTOOLCHAIN=local", "GOCACHE="+engine.Root+"/.cache", "GOMAXPROCS=8", "GORACE=halt_on_error=0")
	var buf bytes.Buffer
	cmd.Stdout, cmd.Stderr = &buf, &buf
	start := time.Now()
	err := cmd.Run()
	out["wall_s"] = time.Since(start).Seconds()
	text := buf.String()
	if ctx.Err() != nil {
		out["note"] = "time limit hit"
	}
	if !strings.Contains(text, "=== RUN") {
		out["note"] = fmt.Sprint(out["note"], " go test -race did not run: ", tail(text, 300))
		return out
	}
	_ = err
	out["ran"] = true
	races := map[string]int{}
	blocks := strings.Split(text, "WARNING: DATA RACE")
	for _, b := range blocks[1:] {
		if i := strings.Index(b, "=================="); i >= 0 {
			b = b[:i]
		}
		// two stacks: the access and the previous access
		parts := strings.SplitN(b, "\nPrevious ", 2)
		if len(parts) != 2 {
			continue
		}
		if i := strings.Index(parts[1], "\nGoroutine "); i >= 0 {
			parts[1] = parts[1][:i]
		}
		a, c := firstRepoFrame(parts[0]), firstRepoFrame(parts[1])
		if a == "" || c == "" {
			continue // not in the code under test (e.g. a race inside the scenario driver)
		}
		if c < a {
			a, c = c, a
		}
		races[a+"/"+c]++
	}
	noReturn := strings.Count(text, "Shutdown / Run did not return")
	var keys []string
	for k := range races {
		keys = append(keys, k)
	}
	sort.Strings(keys)
	rs := map[string]int{}
	for _, k := range keys {
		rs[k] = races[k]
		r.Fail(engine.Failure{Sig: "supplement:go-race-detector:" + k, Detail: fmt.Sprintf("free-running `go test -race` on the un-rewritten code: the Go race detector reported a data race between %s (%d reports in %d iterations per scenario). Sampling result of the supplement.", strings.ReplaceAll(k, "/", " and "), races[k], iterations),
			Case: map[string]interface{}{"supplement": "go test -race ./checks/sched/supplement", "functions": k, "reports": races[k]}})
	}
	// "did not return within 2 s" is a wall-clock observation: on a loaded machine it would raise false alarms, so it is recorded
	// in the evidence only (a Shutdown that cannot return is decided by the explorer as a deadlock, deterministically)
	out["race_reports_by_function_pair"] = rs
	out["shutdown_did_not_return"] = noReturn
	return out
}

// firstRepoFrame returns the first function of gnet/strand on a race detector stack.
func firstRepoFrame(stack string) string {
	for _, l := range strings.Split(stack, "\n") {
		l = strings.TrimSpace(l)
		if strings.HasPrefix(l, "github.com/skycoin/skycoin/src/daemon/") {
			l = strings.TrimPrefix(l, "github.com/skycoin/skycoin/src/daemon/")
			if i := strings.Index(l, "("); i >= 0 {
				if j := strings.LastIndex(l, "("); j > 0 && strings.HasSuffix(l, ")") {
					l = l[:j]
				}
			}
			return l
		}
	}
	return ""
}
