//go:build verif

package daemon

import (
	"errors"
	"sort"

	"time"

	"github.com/skycoin/skycoin/src/daemon/gnet"
	"github.com/skycoin/skycoin/src/daemon/pex"
	"github.com/skycoin/skycoin/src/params"
)

// Export file for check C24 (group peers): read access to the five private indexes of Connections,
// thin wrappers around the four private state-machine methods and the private getters.
// Nothing here changes behaviour; every wrapper calls the real method exactly once.

// VerifConn is a copy of the observable fields of a *connection.
type VerifConn struct {
	Addr       string
	State      string
	Outgoing   bool
	Mirror     uint32
	ListenPort uint16
	GnetID     uint64
	ListenAddr string // connection.ListenAddr()
}

func verifConn(c *connection) *VerifConn {
	if c == nil {
		return nil
	}
	return &VerifConn{
		Addr:       c.Addr,
		State:      string(c.State),
		Outgoing:   c.Outgoing,
		Mirror:     c.Mirror,
		ListenPort: c.ListenPort,
		GnetID:     c.gnetID,
		ListenAddr: c.ListenAddr(),
	}
}

type VerifMirrorEntry struct {
	Mirror uint32
	IP     string
	Port   uint16
}
type VerifIPCount struct {
	IP    string
	Count int
}
type VerifGnetID struct {
	ID   uint64
	Addr string
}
type VerifListenAddr struct {
	ListenAddr string
	Addrs      []string // in stored order
}

// VerifConnMaps is a canonical (sorted) dump of the five maps.
type VerifConnMaps struct {
	Conns       []VerifConnEntry
	Mirrors     []VerifMirrorEntry
	EmptyMirror []uint32 // mirror keys whose inner map is empty
	IPCounts    []VerifIPCount
	GnetIDs     []VerifGnetID
	ListenAddrs []VerifListenAddr
}

type VerifConnEntry struct {
	Key  string
	Conn *VerifConn // nil when the map holds a nil pointer
}

func VerifDumpConnections(c *Connections) VerifConnMaps {
	c.Lock()
	defer c.Unlock()
	var d VerifConnMaps
	for k, v := range c.conns {
		d.Conns = append(d.Conns, VerifConnEntry{Key: k, Conn: verifConn(v)})
	}
	sort.Slice(d.Conns, func(i, j int) bool { return d.Conns[i].Key < d.Conns[j].Key })
	for m, x := range c.mirrors {
		if len(x) == 0 {
			d.EmptyMirror = append(d.EmptyMirror, m)
		}
		for ip, port := range x {
			d.Mirrors = append(d.Mirrors, VerifMirrorEntry{Mirror: m, IP: ip, Port: port})
		}
	}
	sort.Slice(d.EmptyMirror, func(i, j int) bool { return d.EmptyMirror[i] < d.EmptyMirror[j] })
	sort.Slice(d.Mirrors, func(i, j int) bool {
		a, b := d.Mirrors[i], d.Mirrors[j]
		if a.Mirror != b.Mirror {
			return a.Mirror < b.Mirror
		}
		return a.IP < b.IP
	})
	for ip, n := range c.ipCounts {
		d.IPCounts = append(d.IPCounts, VerifIPCount{IP: ip, Count: n})
	}
	sort.Slice(d.IPCounts, func(i, j int) bool { return d.IPCounts[i].IP < d.IPCounts[j].IP })
	for id, a := range c.gnetIDs {
		d.GnetIDs = append(d.GnetIDs, VerifGnetID{ID: id, Addr: a})
	}
	sort.Slice(d.GnetIDs, func(i, j int) bool { return d.GnetIDs[i].ID < d.GnetIDs[j].ID })
	for la, as := range c.listenAddrs {
		d.ListenAddrs = append(d.ListenAddrs, VerifListenAddr{ListenAddr: la, Addrs: append([]string{}, as...)})
	}
	sort.Slice(d.ListenAddrs, func(i, j int) bool { return d.ListenAddrs[i].ListenAddr < d.ListenAddrs[j].ListenAddr })
	return d
}

func VerifPending(c *Connections, addr string) (*VerifConn, error) {
	x, err := c.pending(addr)
	return verifConn(x), err
}

func VerifConnected(c *Connections, addr string, gnetID uint64) (*VerifConn, error) {
	x, err := c.connected(addr, gnetID)
	return verifConn(x), err
}

func VerifIntroduced(c *Connections, addr string, gnetID uint64, m *IntroductionMessage) (*VerifConn, error) {
	x, err := c.introduced(addr, gnetID, m)
	return verifConn(x), err
}

func VerifRemove(c *Connections, addr string, gnetID uint64) error {
	return c.remove(addr, gnetID)
}

func VerifGet(c *Connections, addr string) *VerifConn { return verifConn(c.get(addr)) }

func VerifGetByGnetID(c *Connections, id uint64) *VerifConn { return verifConn(c.getByGnetID(id)) }

// VerifGetByListenAddr returns one element per element of the real result; a nil element stays nil.
func VerifGetByListenAddr(c *Connections, la string) []*VerifConn {
	xs := c.getByListenAddr(la)
	if xs == nil {
		return nil
	}
	out := make([]*VerifConn, len(xs))
	for i, x := range xs {
		out[i] = verifConn(x)
	}
	return out
}

func VerifAll(c *Connections) []VerifConn {
	xs := c.all()
	out := make([]VerifConn, len(xs))
	for i := range xs {
		out[i] = *verifConn(&xs[i])
	}
	sort.Slice(out, func(i, j int) bool { return out[i].Addr < out[j].Addr })
	return out
}

// ---- the Connections of a Daemon, driven through the daemon's own connection event handlers (C24, second exploration) ----

// VerifMiniDaemon returns a Daemon that has exactly what onConnectEvent / onDisconnectEvent touch: a fresh Connections, a real
// gnet pool run offline (messages to unknown connections fail and are logged) and a configuration; stop() shuts the pool down.
func VerifMiniDaemon() (dm *Daemon, stop func()) {
	gcfg := gnet.NewConfig()
	gcfg.DialTimeout = time.Millisecond // outgoing attempts made through connectToPeer dial for real: fail at once
	gpool, err := gnet.NewConnectionPool(gcfg, nil)
	if err != nil {
		panic(err)
	}
	done := make(chan struct{})
	go func() {
		defer close(done)
		gpool.RunOffline() //nolint:errcheck
	}()
	dm = &Daemon{
		config: DaemonConfig{LocalhostOnly: false, IPCountsMax: 1000, Mirror: 99, ProtocolVersion: 2, userAgent: "skycoin:0.26.0",
			UnconfirmedVerifyTxn: params.UserVerifyTxn},
		pool:        &Pool{Pool: gpool},
		connections: NewConnections(),
		events:      make(chan interface{}, 64),
	}
	return dm, func() { gpool.Shutdown(); <-done }
}

func VerifDaemonConnections(dm *Daemon) *Connections { return dm.connections }

func VerifOnConnectEvent(dm *Daemon, addr string, gnetID uint64, solicited bool) {
	dm.onConnectEvent(ConnectEvent{GnetID: gnetID, Addr: addr, Solicited: solicited})
}

func VerifOnDisconnectEvent(dm *Daemon, addr string, gnetID uint64) {
	dm.onDisconnectEvent(DisconnectEvent{GnetID: gnetID, Addr: addr, Reason: errors.New("connection reset")})
}

// VerifConnectToPeer is the daemon's outgoing-attempt entry point (it reserves the pending record and dials in the background).
func VerifConnectToPeer(dm *Daemon, addr string) error { return dm.connectToPeer(pex.Peer{Addr: addr}) }
