//go:build verif

package pex

import "sort"

// Export file for check C26 (group peers): a canonical dump of the private peer list and thin wrappers
// around the private operations (setTrusted, clearOld as the Run loop calls it, save, validateAddress).

type VerifPeer struct {
	Key             string // map key
	Nil             bool   // the map holds a nil *Peer
	Addr            string
	LastSeen        int64
	Trusted         bool
	HasIncomingPort bool
	RetryTimes      int
}

// VerifDump returns the private peer map sorted by key.
func VerifDump(px *Pex) []VerifPeer {
	px.RLock()
	defer px.RUnlock()
	out := make([]VerifPeer, 0, len(px.peerlist.peers))
	for k, p := range px.peerlist.peers {
		if p == nil {
			out = append(out, VerifPeer{Key: k, Nil: true})
			continue
		}
		out = append(out, VerifPeer{Key: k, Addr: p.Addr, LastSeen: p.LastSeen, Trusted: p.Trusted, HasIncomingPort: p.HasIncomingPort, RetryTimes: p.RetryTimes})
	}
	sort.Slice(out, func(i, j int) bool { return out[i].Key < out[j].Key })
	return out
}

func VerifSetTrusted(px *Pex, addr string) error { return px.setTrusted(addr) }

// VerifClearOld does what the clearOldTicker branch of Pex.Run does.
func VerifClearOld(px *Pex) {
	px.Lock()
	defer px.Unlock()
	px.peerlist.clearOld(px.Config.Expiration)
}

func VerifSave(px *Pex) error { return px.save() }

func VerifValidateAddress(addr string, allowLocalhost bool) (string, error) {
	return validateAddress(addr, allowLocalhost)
}
