//go:build verif

package crypto

import "github.com/skycoin/skycoin/src/cipher/encrypt"

// CryptoTypeVerifScryptN16 is a harness-only registry entry: the same ScryptChacha20poly1305 code as the
// default entry with the work factor N = 16, so that the wallet × password product of C18 does not pay
// 1 GiB / several seconds per Lock or Unlock.  (Decrypt takes N from the ciphertext metadata anyway.)
const CryptoTypeVerifScryptN16 = CryptoType("scrypt-chacha20poly1305-verif-n16")

func init() {
	cryptoTable[CryptoTypeVerifScryptN16] = encrypt.ScryptChacha20poly1305{
		N:      16,
		R:      encrypt.ScryptR,
		P:      encrypt.ScryptP,
		KeyLen: encrypt.ScryptKeyLen,
	}
}
