//go:build verif

package wallet

import (
	"fmt"
	"sort"
	"strings"
)

// VerifDumpMeta renders every key of the metadata map in sorted order (nothing dropped).
func VerifDumpMeta(m Meta) string {
	keys := make([]string, 0, len(m))
	for k := range m {
		keys = append(keys, k)
	}
	sort.Strings(keys)
	var b strings.Builder
	for _, k := range keys {
		fmt.Fprintf(&b, "%s=%q;", k, m[k])
	}
	return b.String()
}

// VerifDumpEntries renders every field of every entry in list order.
func VerifDumpEntries(es Entries) string {
	var b strings.Builder
	for i, e := range es {
		a := "<nil>"
		if e.Address != nil {
			a = e.Address.String()
		}
		fmt.Fprintf(&b, "[%d %s pub=%s sec=%s child=%d change=%d]", i, a, e.Public.Hex(), e.Secret.Hex(), e.ChildNumber, e.Change)
	}
	return b.String()
}
