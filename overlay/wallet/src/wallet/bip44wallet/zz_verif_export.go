//go:build verif

package bip44wallet

import (
	"fmt"
	"strings"

	"github.com/skycoin/skycoin/src/wallet"
)

// VerifState is the complete in-memory state of the wallet: metadata, every account with its
// private key (if held), every chain with its extended public key and entries.
func (w *Wallet) VerifState() string {
	var b strings.Builder
	b.WriteString("meta{" + wallet.VerifDumpMeta(w.Meta) + "}")
	am, ok := w.accountManager.(*bip44Accounts)
	if !ok {
		return b.String() + " accounts{?}"
	}
	for _, a := range am.accounts {
		prv := "<nil>"
		if a.Account.PrivateKey != nil {
			prv = a.Account.String()
		}
		fmt.Fprintf(&b, " account{name=%q index=%d coin=%q prv=%s", a.Name, a.Index, a.CoinType, prv)
		for _, c := range a.Chains {
			fmt.Fprintf(&b, " chain{%d xpub=%s entries{%s}}", c.ChainIndex, c.PubKey.String(), wallet.VerifDumpEntries(c.Entries))
		}
		b.WriteString("}")
	}
	return b.String()
}

// VerifChainXPub returns the extended public key string of a chain of an account.
func (w *Wallet) VerifChainXPub(account, chain uint32) string {
	a, err := w.accountManager.account(account)
	if err != nil {
		return ""
	}
	return a.Chains[chain].PubKey.String()
}

// VerifAccountPrivateKey returns the account extended private key string ("" when not held).
func (w *Wallet) VerifAccountPrivateKey(account uint32) string {
	a, err := w.accountManager.account(account)
	if err != nil || a.Account.PrivateKey == nil {
		return ""
	}
	return a.Account.String()
}

// VerifAccountPrivateKeyBytes returns the raw 32-byte account private key (nil when not held).
func (w *Wallet) VerifAccountPrivateKeyBytes(account uint32) []byte {
	a, err := w.accountManager.account(account)
	if err != nil || a.Account.PrivateKey == nil {
		return nil
	}
	return append([]byte{}, a.Account.Key...)
}
