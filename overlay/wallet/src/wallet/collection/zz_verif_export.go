//go:build verif

package collection

import "github.com/skycoin/skycoin/src/wallet"

// VerifState is the complete in-memory state of the wallet (everything but the decoder pointer).
func (w *Wallet) VerifState() string {
	return "meta{" + wallet.VerifDumpMeta(w.Meta) + "} entries{" + wallet.VerifDumpEntries(w.entries) + "}"
}
