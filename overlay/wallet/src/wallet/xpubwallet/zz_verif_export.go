//go:build verif

package xpubwallet

import "github.com/skycoin/skycoin/src/wallet"

// VerifState is the complete in-memory state of the wallet (everything but the decoder pointer).
func (w *Wallet) VerifState() string {
	x := "<nil>"
	if w.xpub != nil {
		x = w.xpub.String()
	}
	return "meta{" + wallet.VerifDumpMeta(w.Meta) + "} xpub{" + x + "} entries{" + wallet.VerifDumpEntries(w.entries) + "}"
}
