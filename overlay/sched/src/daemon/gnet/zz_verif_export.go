//go:build verif && go1.18

package gnet

import "verif/shim/vsched"

// VerifPoolState is what property C32 observes after Shutdown returned: sizes of the pool's connection
// registries and whether a listener is still set.  The reads go through the race monitor like any other
// access of the (concurrency-rewritten) package.
type VerifPoolState struct {
	Pool, Addresses, DefaultOutgoing, Outgoing, Incoming int
	ListenerSet                                          bool
}

func VerifState(pool *ConnectionPool) VerifPoolState {
	const fn = "verif.readState"
	return VerifPoolState{
		Pool:            len(*vsched.R(&pool.pool, "ConnectionPool.pool", fn)),
		Addresses:       len(*vsched.R(&pool.addresses, "ConnectionPool.addresses", fn)),
		DefaultOutgoing: len(*vsched.R(&pool.defaultOutgoingConnections, "ConnectionPool.defaultOutgoingConnections", fn)),
		Outgoing:        len(*vsched.R(&pool.outgoingConnections, "ConnectionPool.outgoingConnections", fn)),
		Incoming:        len(*vsched.R(&pool.incomingConnections, "ConnectionPool.incomingConnections", fn)),
		ListenerSet:     *vsched.R(&pool.listener, "ConnectionPool.listener", fn) != nil,
	}
}
