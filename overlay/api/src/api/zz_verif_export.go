//go:build verif

package api

import "net/http"

// VerifMuxConfig mirrors the private muxConfig for the verification harness (group api, C27/C28).
type VerifMuxConfig struct {
	Host               string
	DisableCSRF        bool
	DisableHeaderCheck bool
	DisableCSP         bool
	EnabledAPISets     map[string]struct{}
	HostWhitelist      []string
	Username           string
	Password           string
	Health             HealthConfig
	EnableGUI          bool   // serve the static files under AppLoc at "/" (C28 only; C27 keeps the GUI off)
	AppLoc             string
}

// VerifNewServerMux builds the REAL server mux (newServerMux) for a configuration.
func VerifNewServerMux(c VerifMuxConfig, gateway Gatewayer) *http.ServeMux {
	return newServerMux(muxConfig{
		host:               c.Host,
		appLoc:             c.AppLoc,
		enableGUI:          c.EnableGUI,
		disableCSRF:        c.DisableCSRF,
		disableHeaderCheck: c.DisableHeaderCheck,
		disableCSP:         c.DisableCSP,
		enabledAPISets:     c.EnabledAPISets,
		hostWhitelist:      c.HostWhitelist,
		username:           c.Username,
		password:           c.Password,
		health:             c.Health,
	}, gateway)
}

// VerifAPISets lists the API set names known to the package, in a fixed order.
func VerifAPISets() []string {
	return []string{EndpointsRead, EndpointsStatus, EndpointsTransaction, EndpointsWallet,
		EndpointsInsecureWalletSeed, EndpointsNetCtrl, EndpointsStorage}
}

// VerifServerHandler returns the handler (the complete mux with every middleware) of a created Server.
func VerifServerHandler(s *Server) http.Handler { return s.server.Handler }

// VerifServerClose releases the listener of a Server that was never served.
func VerifServerClose(s *Server) { s.listener.Close() } //nolint:errcheck
