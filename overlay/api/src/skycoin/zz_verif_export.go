//go:build verif

package skycoin

import (
	"github.com/skycoin/skycoin/src/api"
	"github.com/skycoin/skycoin/src/readable"
	"github.com/skycoin/skycoin/src/util/logging"
)

// VerifNodeAPIServer: the API server of a node with this configuration, made the node's own way - Config.postProcess (flag
// post-processing: API sets, host whitelist, …) and Coin.createGUI - on a loopback port, without a gateway (only endpoints that
// do not need one may be called).  For check C27, part "node configuration path".
func VerifNodeAPIServer(n NodeConfig) (*api.Server, error) {
	c := NewCoin(Config{Node: n, Build: readable.BuildInfo{Version: "0.27.1", Commit: "verif", Branch: "verif"}}, logging.MustGetLogger("verif"))
	if err := c.ParseConfig(); err != nil {
		return nil, err
	}
	return c.createGUI(nil, "127.0.0.1:0")
}
