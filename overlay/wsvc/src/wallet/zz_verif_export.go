//go:build verif

package wallet

// VerifDump returns the service's in-memory state WITHOUT cloning: the wallet objects held in
// serv.wallets (read them, never mutate them) and a copy of the fingerprints map.
func VerifDump(serv *Service) (Wallets, map[string]string) {
	serv.RLock()
	defer serv.RUnlock()
	ws := make(Wallets, len(serv.wallets))
	for k, w := range serv.wallets {
		ws[k] = w
	}
	fps := make(map[string]string, len(serv.fingerprints))
	for k, v := range serv.fingerprints {
		fps[k] = v
	}
	return ws, fps
}
