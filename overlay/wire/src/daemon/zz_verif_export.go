//go:build verif

package daemon

import (
	"fmt"

	"github.com/skycoin/skycoin/src/cipher"
	"github.com/skycoin/skycoin/src/coin"
	"github.com/skycoin/skycoin/src/daemon/gnet"
	"github.com/skycoin/skycoin/src/daemon/pex"
	"github.com/skycoin/skycoin/src/transaction"
	"github.com/skycoin/skycoin/src/visor"
)

// ---- C22: a recording daemoner used as the gnet pool's message state ---------------------------------

// VerifHandled is one invocation of a message's Handle observed through the daemoner interface.
type VerifHandled struct {
	Msg  gnet.Message // the message object that was handled (nil for PONG, which only reads the config)
	Pong bool
	Addr string
	ID   uint64
}

// VerifRecorder implements daemoner; Handle() of every registered message ends in recordMessageEvent
// (or, for PONG, in DaemonConfig), which are recorded in order. Every other method is unreachable from Handle.
type VerifRecorder struct {
	Cfg      DaemonConfig
	CfgCalls int
	Handled  []VerifHandled
	Other    []string
}

func (r *VerifRecorder) recordMessageEvent(m asyncMessage, c *gnet.MessageContext) error {
	gm, _ := m.(gnet.Message)
	r.Handled = append(r.Handled, VerifHandled{Msg: gm, Addr: c.Addr, ID: c.ConnID})
	return nil
}
func (r *VerifRecorder) DaemonConfig() DaemonConfig {
	r.CfgCalls++
	return r.Cfg
}

// VerifNoteHandled is called by the harness after each receiveMessage: a Handle that ended without a message event
// but read the daemon config is the PONG handler (it has nothing to queue).
func (r *VerifRecorder) VerifNoteHandled(eventsBefore, cfgCallsBefore int) {
	if len(r.Handled) == eventsBefore && r.CfgCalls > cfgCallsBefore {
		r.Handled = append(r.Handled, VerifHandled{Pong: true})
	}
}
func (r *VerifRecorder) other(s string) { r.Other = append(r.Other, s) }
func (r *VerifRecorder) Disconnect(addr string, x gnet.DisconnectReason) error {
	r.other("Disconnect")
	return nil
}
func (r *VerifRecorder) sendMessage(addr string, msg gnet.Message) error {
	r.other("sendMessage")
	return nil
}
func (r *VerifRecorder) broadcastMessage(msg gnet.Message) ([]uint64, error) {
	r.other("broadcastMessage")
	return nil, nil
}
func (r *VerifRecorder) disconnectNow(addr string, x gnet.DisconnectReason) error {
	r.other("disconnectNow")
	return nil
}
func (r *VerifRecorder) addPeers(addrs []string) int { r.other("addPeers"); return 0 }
func (r *VerifRecorder) recordPeerHeight(addr string, gnetID, height uint64) {
	r.other("recordPeerHeight")
}
func (r *VerifRecorder) getSignedBlocksSince(seq, count uint64) ([]coin.SignedBlock, error) {
	r.other("getSignedBlocksSince")
	return nil, nil
}
func (r *VerifRecorder) headBkSeq() (uint64, bool, error) { r.other("headBkSeq"); return 0, false, nil }
func (r *VerifRecorder) executeSignedBlock(b coin.SignedBlock) error {
	r.other("executeSignedBlock")
	return nil
}
func (r *VerifRecorder) filterKnownUnconfirmed(txns []cipher.SHA256) ([]cipher.SHA256, error) {
	r.other("filterKnownUnconfirmed")
	return nil, nil
}
func (r *VerifRecorder) getKnownUnconfirmed(txns []cipher.SHA256) (coin.Transactions, error) {
	r.other("getKnownUnconfirmed")
	return nil, nil
}
func (r *VerifRecorder) requestBlocksFromAddr(addr string) error {
	r.other("requestBlocksFromAddr")
	return nil
}
func (r *VerifRecorder) announceAllValidTxns() error { r.other("announceAllValidTxns"); return nil }
func (r *VerifRecorder) pexConfig() pex.Config       { r.other("pexConfig"); return pex.Config{} }
func (r *VerifRecorder) injectTransaction(txn coin.Transaction) (bool, *transaction.ErrTxnViolatesSoftConstraint, error) {
	r.other("injectTransaction")
	return false, nil, nil
}
func (r *VerifRecorder) connectionIntroduced(addr string, gnetID uint64, m *IntroductionMessage) (*connection, error) {
	r.other("connectionIntroduced")
	return nil, nil
}
func (r *VerifRecorder) sendRandomPeers(addr string) error { r.other("sendRandomPeers"); return nil }

var _ daemoner = &VerifRecorder{}

// VerifRegisterMessages (re)registers the daemon's message set with gnet exactly as daemon.New does.
func VerifRegisterMessages() {
	gnet.EraseMessages()
	mc := NewMessagesConfig()
	mc.Register()
}

// VerifMessageIDs returns the ids of the registered daemon messages.
func VerifMessageIDs() []string {
	var out []string
	for _, mc := range getMessageConfigs() {
		out = append(out, string(mc.Prefix[:]))
	}
	return out
}

// ---- C23: the private truncate functions (the exported New…Message constructors call them) -------------

func VerifTruncateGiveBlocks(m *GiveBlocksMessage, max uint64) { truncateGiveBlocksMessage(m, max) }
func VerifTruncateGiveTxns(m *GiveTxnsMessage, max uint64)     { truncateGiveTxnsMessage(m, max) }
func VerifTruncateGivePeers(m *GivePeersMessage, max uint64)   { truncateGivePeersMessage(m, max) }
func VerifTruncateAnnounceTxns(m *AnnounceTxnsMessage, max uint64) {
	m.Transactions = truncateAnnounceTxnsHashes(m, max)
}
func VerifTruncateGetTxns(m *GetTxnsMessage, max uint64) {
	m.Transactions = truncateGetTxnsHashes(m, max)
}
func VerifMaxSizeGiveBlocksMessage(maxBlockSize uint32) uint64 {
	return maxSizeGiveBlocksMessage(maxBlockSize)
}

// ---- C25: a real Daemon driven event by event -------------------------------------------------------

// VerifNewDaemon is daemon.New after resetting gnet's global message registry (New registers the messages).
func VerifNewDaemon(cfg Config, v *visor.Visor) (*Daemon, error) {
	gnet.EraseMessages()
	return New(cfg, v)
}

// VerifGnetPool returns the gnet pool of the daemon.
func VerifGnetPool(dm *Daemon) *gnet.ConnectionPool { return dm.pool.Pool }

// VerifPex returns the daemon's pex.
func VerifPex(dm *Daemon) *pex.Pex { return dm.pex }

// VerifNextEvent pops the next queued daemon event without blocking.
func VerifNextEvent(dm *Daemon) (interface{}, bool) {
	select {
	case e := <-dm.events:
		return e, true
	default:
		return nil, false
	}
}

// VerifHandleEvent is dm.handleEvent: the body of the daemon run loop for one event
// (messageEvent -> onMessageEvent, ConnectEvent -> onConnectEvent, DisconnectEvent -> onDisconnectEvent).
func VerifHandleEvent(dm *Daemon, e interface{}) { dm.handleEvent(e) }

// VerifHandleSendResult is dm.handleMessageSendResult (what the daemon does after gnet's sendLoop wrote a message).
func VerifHandleSendResult(dm *Daemon, r gnet.SendResult) { dm.handleMessageSendResult(r) }

// VerifEventInfo describes a daemon event.
type VerifEventInfo struct {
	Kind    string // message | connect | disconnect | connect-failure | other
	Addr    string
	GnetID  uint64
	MsgType string
	Reason  error
}

func VerifDescribeEvent(e interface{}) VerifEventInfo {
	switch x := e.(type) {
	case messageEvent:
		return VerifEventInfo{Kind: "message", Addr: x.Context.Addr, GnetID: x.Context.ConnID, MsgType: fmt.Sprintf("%T", x.Message)}
	case ConnectEvent:
		return VerifEventInfo{Kind: "connect", Addr: x.Addr, GnetID: x.GnetID}
	case DisconnectEvent:
		return VerifEventInfo{Kind: "disconnect", Addr: x.Addr, GnetID: x.GnetID, Reason: x.Reason}
	case ConnectFailureEvent:
		return VerifEventInfo{Kind: "connect-failure", Addr: x.Addr, Reason: x.Error}
	}
	return VerifEventInfo{Kind: "other"}
}

// VerifConnInfo is the daemon's bookkeeping of one connection.
type VerifConnInfo struct {
	Exists  bool
	State   ConnectionState
	GnetID  uint64
	Details ConnectionDetails
	Total   int // number of connections known to the daemon
}

func VerifConn(dm *Daemon, addr string) VerifConnInfo {
	info := VerifConnInfo{Total: dm.connections.Len()}
	c := dm.connections.get(addr)
	if c == nil {
		return info
	}
	info.Exists = true
	info.State = c.State
	info.GnetID = c.gnetID
	info.Details = c.ConnectionDetails
	return info
}

// VerifDisconnectReason returns the (unexported, not transmitted) reason a DisconnectMessage was created with.
func VerifDisconnectReason(m *DisconnectMessage) gnet.DisconnectReason { return m.reason }

// ---- C23: replies built by the request HANDLERS (not only by the constructors) -------------------------------

// VerifReplier is a daemoner with configurable data sources that records what the handlers send.
type VerifReplier struct {
	VerifRecorder
	Known   coin.Transactions  // answer of getKnownUnconfirmed
	Unknown []cipher.SHA256    // answer of filterKnownUnconfirmed
	Blocks  []coin.SignedBlock // answer of getSignedBlocksSince
	Sent    []gnet.Message
}

func (r *VerifReplier) DaemonConfig() DaemonConfig { return r.Cfg }
func (r *VerifReplier) sendMessage(addr string, msg gnet.Message) error {
	r.Sent = append(r.Sent, msg)
	return nil
}
func (r *VerifReplier) getKnownUnconfirmed(txns []cipher.SHA256) (coin.Transactions, error) {
	return r.Known, nil
}
func (r *VerifReplier) filterKnownUnconfirmed(txns []cipher.SHA256) ([]cipher.SHA256, error) {
	return r.Unknown, nil
}
func (r *VerifReplier) getSignedBlocksSince(seq, count uint64) ([]coin.SignedBlock, error) {
	return r.Blocks, nil
}
func (r *VerifReplier) recordPeerHeight(addr string, gnetID, height uint64) {}

var _ daemoner = &VerifReplier{}

// VerifHandlerReply runs the real handler of a request message against the replier and returns the (single) message it sent
// back, nil if it sent none.  kind: GETT (→ GIVT), ANNT (→ GETT), GETB (→ GIVB).
func VerifHandlerReply(r *VerifReplier, kind string) gnet.Message {
	ctx := &gnet.MessageContext{Addr: "10.9.9.9:6000", ConnID: 7}
	r.Sent = nil
	switch kind {
	case "GETT":
		m := &GetTxnsMessage{Transactions: []cipher.SHA256{{1}}}
		m.c = ctx
		m.process(r)
	case "ANNT":
		m := &AnnounceTxnsMessage{Transactions: []cipher.SHA256{{1}}}
		m.c = ctx
		m.process(r)
	case "GETB":
		m := &GetBlocksMessage{LastBlock: 0, RequestedBlocks: 1000}
		m.c = ctx
		m.process(r)
	}
	if len(r.Sent) == 0 {
		return nil
	}
	return r.Sent[len(r.Sent)-1]
}
