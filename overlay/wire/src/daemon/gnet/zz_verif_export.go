//go:build verif

package gnet

import (
	"bytes"
	"net"

	"github.com/sirupsen/logrus"

	"github.com/skycoin/skycoin/src/util/logging"
)

// VerifQuiet silences the logrus based loggers of the code under test (they format every entry otherwise).
func VerifQuiet() {
	logging.Disable()
	logging.SetLevel(logrus.PanicLevel)
}

// VerifReadLoop runs the real readLoop on c until it returns (read error / EOF of the scripted net.Conn, or a
// framing error) with a message channel of capacity msgCap, and returns the frames it delivered, in order.
func VerifReadLoop(pool *ConnectionPool, c *Connection, msgCap int) ([][]byte, error) {
	msgC := make(chan []byte, msgCap)
	qc := make(chan struct{})
	err := pool.readLoop(c, msgC, qc)
	var out [][]byte
	for m := range msgC { // readLoop closes msgC on return
		out = append(out, m)
	}
	return out, err
}

// VerifDecodeData is decodeData.
func VerifDecodeData(buf *bytes.Buffer, maxMsgLength int) ([][]byte, error) {
	return decodeData(buf, maxMsgLength)
}

// VerifConvertToMessage is convertToMessage.
func VerifConvertToMessage(id uint64, msg []byte) (Message, error) {
	return convertToMessage(id, msg, false)
}

// VerifReceiveMessage is pool.receiveMessage (the pool's strand must be running: RunOffline).
func VerifReceiveMessage(pool *ConnectionPool, c *Connection, msg []byte) error {
	return pool.receiveMessage(c, msg)
}

// VerifSendMessage is the write path of sendLoop for one message: sendMessage(conn, msg, timeout 0, maxMsgLength).
func VerifSendMessage(conn net.Conn, msg Message, maxMsgLength int) error {
	return sendMessage(conn, msg, 0, maxMsgLength)
}

// VerifAddConn registers nc with the pool exactly as handleConnection does (newConnection + ConnectCallback
// inside the strand) without starting the read/send goroutines.
func VerifAddConn(pool *ConnectionPool, nc net.Conn, solicited bool) (*Connection, error) {
	var c *Connection
	err := pool.strand("handleConnection", func() error {
		var err error
		c, err = pool.newConnection(nc, solicited)
		if err != nil {
			return err
		}
		if pool.Config.ConnectCallback != nil {
			pool.Config.ConnectCallback(c.Addr(), c.ID, solicited)
		}
		return nil
	})
	return c, err
}

// VerifDrainWriteQueue removes and returns the messages queued for sending on c (what sendLoop would write).
func VerifDrainWriteQueue(c *Connection) []Message {
	var out []Message
	for {
		select {
		case m, ok := <-c.WriteQueue:
			if !ok {
				return out
			}
			out = append(out, m)
		default:
			return out
		}
	}
}

// VerifPoolHas reports whether the pool still holds a connection for addr.
func VerifPoolHas(pool *ConnectionPool, addr string) bool {
	has := false
	_ = pool.strand("verifHas", func() error { //nolint
		_, has = pool.addresses[addr]
		return nil
	})
	return has
}
