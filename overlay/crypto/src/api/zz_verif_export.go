//go:build verif

package api

import (
	"encoding/json"
	"net/http"
	"net/http/httptest"
	"strings"
)

// VerifAddressVerify sends {"address": text} to the real handler of POST /api/v2/address/verify (check C15 observes address
// text ↔ address value at the API too) and returns the status and, for 200, the version of the response.
func VerifAddressVerify(text string) (status int, version uint8, body string) {
	b, _ := json.Marshal(map[string]string{"address": text})
	req := httptest.NewRequest(http.MethodPost, "/api/v2/address/verify", strings.NewReader(string(b)))
	req.Header.Set("Content-Type", "application/json")
	rec := httptest.NewRecorder()
	addressVerifyHandler(rec, req)
	var resp struct {
		Data *struct {
			Version uint8 `json:"version"`
		} `json:"data"`
	}
	if rec.Code == http.StatusOK {
		if err := json.Unmarshal(rec.Body.Bytes(), &resp); err == nil && resp.Data != nil {
			version = resp.Data.Version
		}
	}
	return rec.Code, version, rec.Body.String()
}
