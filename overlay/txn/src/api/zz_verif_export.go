//go:build verif

package api

import "net/http"

// VerifTransactionHandlerV2 is the real handler of POST /api/v2/transaction (one handler value = one running node's route).
func VerifTransactionHandlerV2(gateway Gatewayer) http.HandlerFunc { return transactionHandlerV2(gateway) }
