//go:build verif

package daemon

import (
	"github.com/skycoin/skycoin/src/cipher"
	"github.com/skycoin/skycoin/src/coin"
	"github.com/skycoin/skycoin/src/daemon/gnet"
	"github.com/skycoin/skycoin/src/daemon/pex"
	"github.com/skycoin/skycoin/src/transaction"
	"github.com/skycoin/skycoin/src/visor"
)

// VerifDaemoner implements the package-private daemoner interface with function fields, so that a harness can put a
// REAL visor behind the block-sync message handlers and record what they send.
type VerifDaemoner struct {
	Config             DaemonConfig
	HeadBkSeq          func() (uint64, bool, error)
	ExecuteSignedBlock func(b coin.SignedBlock) error
	GetBlocksSince     func(seq, count uint64) ([]coin.SignedBlock, error)
	Sent               []VerifSent // messages sent (Addr != "") or broadcast (Addr == "")
	PeerHeights        map[string]uint64
}

type VerifSent struct {
	Addr string
	Msg  gnet.Message
}

func (d *VerifDaemoner) Disconnect(addr string, r gnet.DisconnectReason) error { return nil }
func (d *VerifDaemoner) DaemonConfig() DaemonConfig                             { return d.Config }
func (d *VerifDaemoner) sendMessage(addr string, msg gnet.Message) error {
	d.Sent = append(d.Sent, VerifSent{addr, msg})
	return nil
}
func (d *VerifDaemoner) broadcastMessage(msg gnet.Message) ([]uint64, error) {
	d.Sent = append(d.Sent, VerifSent{"", msg})
	return []uint64{1}, nil
}
func (d *VerifDaemoner) disconnectNow(addr string, r gnet.DisconnectReason) error { return nil }
func (d *VerifDaemoner) addPeers(addrs []string) int                             { return 0 }
func (d *VerifDaemoner) recordPeerHeight(addr string, gnetID, height uint64) {
	if d.PeerHeights == nil {
		d.PeerHeights = map[string]uint64{}
	}
	d.PeerHeights[addr] = height
}
func (d *VerifDaemoner) getSignedBlocksSince(seq, count uint64) ([]coin.SignedBlock, error) {
	return d.GetBlocksSince(seq, count)
}
func (d *VerifDaemoner) headBkSeq() (uint64, bool, error)             { return d.HeadBkSeq() }
func (d *VerifDaemoner) executeSignedBlock(b coin.SignedBlock) error { return d.ExecuteSignedBlock(b) }
func (d *VerifDaemoner) filterKnownUnconfirmed(txns []cipher.SHA256) ([]cipher.SHA256, error) {
	return nil, nil
}
func (d *VerifDaemoner) getKnownUnconfirmed(txns []cipher.SHA256) (coin.Transactions, error) {
	return nil, nil
}
func (d *VerifDaemoner) requestBlocksFromAddr(addr string) error { return nil }
func (d *VerifDaemoner) announceAllValidTxns() error             { return nil }
func (d *VerifDaemoner) pexConfig() pex.Config                   { return pex.Config{} }
func (d *VerifDaemoner) injectTransaction(txn coin.Transaction) (bool, *transaction.ErrTxnViolatesSoftConstraint, error) {
	return false, nil, nil
}
func (d *VerifDaemoner) recordMessageEvent(m asyncMessage, c *gnet.MessageContext) error { return nil }
func (d *VerifDaemoner) connectionIntroduced(addr string, gnetID uint64, m *IntroductionMessage) (*connection, error) {
	return nil, nil
}
func (d *VerifDaemoner) sendRandomPeers(addr string) error { return nil }

var _ daemoner = &VerifDaemoner{}

// VerifProcessGiveBlocks runs the real GiveBlocksMessage.process as if received from addr.
func VerifProcessGiveBlocks(d *VerifDaemoner, blocks []coin.SignedBlock, addr string) {
	m := &GiveBlocksMessage{Blocks: blocks, c: &gnet.MessageContext{Addr: addr, ConnID: 7}}
	m.process(d)
}

// VerifProcessAnnounceBlocks runs the real AnnounceBlocksMessage.process as if received from addr.
func VerifProcessAnnounceBlocks(d *VerifDaemoner, maxSeq uint64, addr string) {
	m := &AnnounceBlocksMessage{MaxBkSeq: maxSeq, c: &gnet.MessageContext{Addr: addr, ConnID: 7}}
	m.process(d)
}

// VerifProcessGetBlocks runs the real GetBlocksMessage.process as if received from addr.
func VerifProcessGetBlocks(d *VerifDaemoner, last, count uint64, addr string) {
	m := &GetBlocksMessage{LastBlock: last, RequestedBlocks: count, c: &gnet.MessageContext{Addr: addr, ConnID: 7}}
	m.process(d)
}

// VerifGatewayInjectTransaction is the gateway entry point behind POST /api/v1/injectTransaction with no_broadcast:
// Daemon.InjectTransaction on a Daemon that holds the given visor (a user submission that is not broadcast).
func VerifGatewayInjectTransaction(v *visor.Visor, txn coin.Transaction) error {
	dm := &Daemon{visor: v}
	return dm.InjectTransaction(txn)
}

// ---- C33 part F: the real Daemon between the block messages and the peers ----

// VerifFanoutDaemon returns a Daemon with a real Visor, a fresh Connections and a real gnet pool run offline.
func VerifFanoutDaemon(v *visor.Visor) (dm *Daemon, stop func()) {
	gcfg := gnet.NewConfig()
	gcfg.ConnectionWriteQueueSize = 64
	gpool, err := gnet.NewConnectionPool(gcfg, nil)
	if err != nil {
		panic(err)
	}
	done := make(chan struct{})
	go func() {
		defer close(done)
		gpool.RunOffline() //nolint:errcheck
	}()
	dm = &Daemon{
		config:      DaemonConfig{IPCountsMax: 1000, Mirror: 99, ProtocolVersion: 2, GetBlocksRequestCount: 20, MaxOutgoingMessageLength: 256 * 1024},
		pool:        &Pool{Pool: gpool},
		visor:       v,
		connections: NewConnections(),
		events:      make(chan interface{}, 64),
	}
	return dm, func() { gpool.Shutdown(); <-done }
}

// VerifFanoutPeer puts a peer into the given state ("pending", "connected", "introduced") the way the daemon's event handlers
// do (Connections.pending / connected / introduced) and, from "connected" on, registers its gnet connection record.
func VerifFanoutPeer(dm *Daemon, addr string, state string, mirror uint32) (*gnet.Connection, error) {
	if _, err := dm.connections.pending(addr); err != nil {
		return nil, err
	}
	if state == "pending" {
		return nil, nil
	}
	gc, err := gnet.VerifAddConnection(dm.pool.Pool, addr, true)
	if err != nil {
		return nil, err
	}
	if _, err := dm.connections.connected(addr, gc.ID); err != nil {
		return nil, err
	}
	if state == "connected" {
		return gc, nil
	}
	_, err = dm.connections.introduced(addr, gc.ID, &IntroductionMessage{Mirror: mirror, ListenPort: 6000, ProtocolVersion: 2})
	return gc, err
}

// VerifDaemonProcessGiveBlocks runs the real handler of a received GiveBlocksMessage on the real Daemon.
func VerifDaemonProcessGiveBlocks(dm *Daemon, blocks []coin.SignedBlock) {
	m := &GiveBlocksMessage{Blocks: blocks}
	m.process(dm)
}

// VerifRequestBlocks is what the daemon's block-request ticker does.
func VerifRequestBlocks(dm *Daemon) error { return dm.requestBlocks() }
