//go:build verif

package gnet

import (
	"errors"
	"net"
	"time"
)

type verifAddr string

func (a verifAddr) Network() string { return "tcp" }
func (a verifAddr) String() string  { return string(a) }

// verifConn is a connection to nowhere: it only has a remote address (nothing reads or writes it; no loop is started).
type verifConn struct{ addr verifAddr }

func (c *verifConn) Read(b []byte) (int, error)         { return 0, errors.New("verif: not readable") }
func (c *verifConn) Write(b []byte) (int, error)        { return len(b), nil }
func (c *verifConn) Close() error                       { return nil }
func (c *verifConn) LocalAddr() net.Addr                { return verifAddr("127.0.0.1:6000") }
func (c *verifConn) RemoteAddr() net.Addr               { return c.addr }
func (c *verifConn) SetDeadline(t time.Time) error      { return nil }
func (c *verifConn) SetReadDeadline(t time.Time) error  { return nil }
func (c *verifConn) SetWriteDeadline(t time.Time) error { return nil }

// VerifAddConnection registers a connection record for addr in the pool (through the pool's own newConnection, on the strand)
// without starting its read/write loops: what BroadcastMessage / SendMessage queue for it stays in its WriteQueue.
func VerifAddConnection(pool *ConnectionPool, addr string, solicited bool) (*Connection, error) {
	var c *Connection
	err := pool.strand("VerifAddConnection", func() error {
		var e error
		c, e = pool.newConnection(&verifConn{addr: verifAddr(addr)}, solicited)
		return e
	})
	return c, err
}
