//go:build verif

package visor

import "github.com/skycoin/skycoin/src/cipher"

// VerifPaginate runs the real txnHashesContainer.Pagination over a list of n distinct items (item i has seq i)
// and returns the seqs of the page.
func VerifPaginate(n int, page *PageIndex) (seqs []uint64, total uint64, err error) {
	c := newTxnHashesContainer()
	for i := 0; i < n; i++ {
		var h cipher.SHA256
		h[0], h[1], h[2] = byte(i), byte(i>>8), 1
		c.Add(h, true, uint64(i))
	}
	p, total, err := c.Pagination(page)
	if err != nil {
		return nil, total, err
	}
	for _, it := range p.items {
		seqs = append(seqs, it.seq)
	}
	return seqs, total, nil
}
