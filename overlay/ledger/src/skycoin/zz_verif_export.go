//go:build verif

package skycoin

import (
	"github.com/blang/semver"

	"github.com/skycoin/skycoin/src/cipher"
	"github.com/skycoin/skycoin/src/util/logging"
	"github.com/skycoin/skycoin/src/visor/dbutil"
)

// VerifCheckAndUpdateDB runs the node's real start-up database check (checkAndUpdateDB with the real dbVerify).
func VerifCheckAndUpdateDB(db *dbutil.DB, forceVerify, resetCorrupt bool, appVersion string, pubkey cipher.PubKey, quit chan struct{}) (*dbutil.DB, error) {
	av := semver.MustParse(appVersion)
	cp := dbVerifyCheckpointVersionParsed
	dv := dbVerify{blockchainPubkey: pubkey, logger: logging.MustGetLogger("verif"), quit: quit}
	return checkAndUpdateDB(db, dbCheckConfig{ForceVerify: forceVerify, ResetCorruptDB: resetCorrupt, AppVersion: &av, DBCheckpointVersion: &cp}, &dv)
}
