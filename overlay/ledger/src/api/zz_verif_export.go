//go:build verif

package api

import "net/http"

// VerifTransactionsHandlerV2 is the real handler of /api/v2/transactions (one handler value = one running node's route).
func VerifTransactionsHandlerV2(gateway Gatewayer) http.HandlerFunc {
	return transactionsHandlerV2(gateway)
}
