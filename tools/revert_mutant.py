#!/usr/bin/env python3
"""tools/revert_mutant.py <findings/X.fix.json> <mutants/Cnn-name.json> "<description>": a mutant that reverts an applied fix."""
import json, sys
m = json.load(open(sys.argv[1]))
out = {"name": sys.argv[2].split("/")[-1][:-5], "description": sys.argv[3], "edits": [{"file": e["file"], "old": e["new"], "new": e["old"]} for e in m["edits"]]}
json.dump(out, open(sys.argv[2], "w"), indent=1)
