#!/usr/bin/env python3
"""Regenerates the findings table of DESIGN.md section 0.1 from known_findings.json."""
import json, re, os
root = os.path.dirname(os.path.dirname(os.path.abspath(__file__)))
kf = json.load(open(os.path.join(root, 'known_findings.json')))
rows = ["| property | id | status | commit | signature (truncated) |", "|---|---|---|---|---|"]
for f in kf:
    commit = f.get('commit', '')
    if not commit:
        m = re.match(r'fixed: property=\S+ ([0-9a-f]{7,12}) ', f.get('description', ''))
        commit = m.group(1) if m else ''
    sig = f.get('signature', '')
    if len(sig) > 90:
        sig = sig[:90]
    rows.append("| %s | %s | %s | %s | `%s` |" % (f['property'], f.get('id', ''), f.get('status', ''), commit, sig))
p = os.path.join(root, 'DESIGN.md')
s = open(p).read()
a = s.index("| property | id | status | commit | signature (truncated) |")
b = s.index("\n\n", a)
s = s[:a] + "\n".join(rows) + s[b:]
open(p, 'w').write(s)
print("DESIGN.md findings table: %d rows" % len(kf))
