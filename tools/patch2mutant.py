#!/usr/bin/env python3
"""tools/patch2mutant.py <patch.diff> <out.json> [name]: turns a unified diff against /repo into a mutant overlay (whole-file edits),
so a seeded change can be run through the checks without touching /repo's working tree."""
import json, os, re, shutil, subprocess, sys, tempfile
patch, out = sys.argv[1], sys.argv[2]
name = sys.argv[3] if len(sys.argv) > 3 else os.path.basename(out)[:-5]
files = sorted(set(re.findall(r'^\+\+\+ b/(\S+)', open(patch).read(), re.M)))
tmp = tempfile.mkdtemp(dir="/dev/shm")
edits = []
try:
    for f in files:
        os.makedirs(os.path.dirname(os.path.join(tmp, f)), exist_ok=True)
        shutil.copy(os.path.join("/repo", f), os.path.join(tmp, f))
    subprocess.check_call(["patch", "-p1", "-s", "-d", tmp, "-i", os.path.abspath(patch)])
    for f in files:
        old = open(os.path.join("/repo", f)).read()
        new = open(os.path.join(tmp, f)).read()
        assert old != new, f
        edits.append({"file": f, "old": old, "new": new})
finally:
    shutil.rmtree(tmp)
json.dump({"name": name, "description": "seeded change " + patch, "skip_repo_tests": True, "edits": edits}, open(out, "w"))
print("files:", files)
