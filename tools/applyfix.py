#!/usr/bin/env python3
"""tools/applyfix.py <fix.json> : applies mutant-format edits to /repo's working tree (lead only)."""
import json, sys
m = json.load(open(sys.argv[1]))
for e in m["edits"]:
    p = "/repo/" + e["file"]
    s = open(p).read()
    assert s.count(e["old"]) == 1, (e["file"], s.count(e["old"]))
    open(p, "w").write(s.replace(e["old"], e["new"]))
    print("edited", e["file"])
