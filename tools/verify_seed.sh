#!/bin/bash
# tools/verify_seed.sh <Cnn> <pkgdir> <TestRegex> <check ids...>
# Confirms a seeded change independently in its scratch worktree /tmp/seed-<Cnn> (demo fails with the change, passes without; the
# package's own tests pass with it), runs the listed checks against it (as a build overlay; /repo is not touched) and files
# everything under /verif/seeded/<Cnn>/.
id=$1; pkg=$2; rx=$3; shift 3
P=${SEED_PREFIX:-seed}; D=$id${SEED_SUFFIX}; W=/tmp/$P-$id; O=/tmp/$P-$id-out
export GOFLAGS=-mod=mod GOPROXY=off GOSUMDB=off GOTOOLCHAIN=local
cd $W || exit 2
git diff --quiet && { echo "worktree has no change"; exit 2; }
git diff -- src > /dev/shm/seed-$id.diff
cp $O/demo_test.go $W/$pkg/zz_seed_demo_test.go
# SEED_TEST_FLAGS (e.g. -race) are added to the demo runs; SEED_UNSHARE=1 runs every go test in a private network namespace (gnet binds fixed ports)
gt() { if [ -n "$SEED_UNSHARE" ]; then unshare -n sh -c "ip link set lo up && go test $*"; else sh -c "go test $*"; fi; }
with=$(gt $SEED_TEST_FLAGS -vet=off -count=1 -run "$rx" ./$pkg/ 2>&1 | tail -1)
git apply -R /dev/shm/seed-$id.diff
without=$(gt $SEED_TEST_FLAGS -vet=off -count=1 -run "$rx" ./$pkg/ 2>&1 | tail -1)
git apply /dev/shm/seed-$id.diff
rm -f $W/$pkg/zz_seed_demo_test.go
tests=$(gt -vet=off -count=1 -skip "'TestErrMissingSignatureRecreateDB|TestIsWritable|TestServiceNewAddresses'" ./$pkg/ 2>&1 | tail -1)
echo "demo with change:    $with"; echo "demo without change: $without"; echo "package tests with change: $tests"
cd /verif
mkdir -p seeded/$D /dev/shm/seedm
cp /dev/shm/seed-$id.diff seeded/$D/patch.diff; cp $O/demo_test.go seeded/$D/; 
tools/patch2mutant.py seeded/$D/patch.diff /dev/shm/seedm/$D.json >/dev/null
res="{}"
for c in "$@"; do
  out=$(VERIF_MUTANT=/dev/shm/seedm/$D.json ./run $c quick 2>&1); code=$?
  v=$(echo "$out" | grep -m1 "^VIOLATION" ); d=$(echo "$out" | grep -m1 "^  detail:" | cut -c1-300)
  echo "check $c: exit $code $v"
  res=$(echo "$res" | jq --arg c "$c" --argjson code $code --arg d "$d" '. + {($c): {exit: $code, detail: $d}}')
done
jq --arg with "$with" --arg without "$without" --arg tests "$tests" --arg pkg "$pkg" --arg rx "$rx" --argjson checks "$res" \
  '. + {verified_by_lead: {demo_package: $pkg, demo_test: $rx, demo_with_change: $with, demo_without_change: $without, package_tests_with_change: $tests, checks_run_quick: $checks}}' $O/meta.json > seeded/$D/meta.json
