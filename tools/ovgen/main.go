// ovgen builds the go build -overlay for one check group from the CURRENT /repo tree.
//
//	/verif/overlay/<group>/<repo-relative dir>/*.go   files ADDED to that package (export files, //go:build verif)
//	/verif/overlay/<group>/rewrites.json              [{"file": "src/visor/visor.go", "imports": {"time": "verif/shim/vtime"}}]
//	                                                   import-spec-only rewrites of repo files (body byte-identical otherwise)
//	$VERIF_MUTANT                                      {"edits":[{"file","old","new"}]} deliberate property-breaking change, applied as
//	                                                   overlay (never touches /repo); "old" must occur exactly once.
//
// "common" is applied to every group first.
package main

import (
	"bytes"
	"encoding/json"
	"flag"
	"fmt"
	"go/ast"
	"go/format"
	"go/parser"
	"go/token"
	"os"
	"os/exec"
	"path/filepath"
	"sort"
	"strconv"
	"strings"
)

type rewrite struct {
	File    string            `json:"file"`
	Imports map[string]string `json:"imports"`
}

type mutant struct {
	Add []struct {
		Path   string `json:"path"`   // absolute target path (may start with $BOLT)
		Source string `json:"source"` // file under the group's overlay directory
	} `json:"add"`
	Name  string `json:"name"`
	Edits []struct {
		File string `json:"file"`
		Old  string `json:"old"`
		New  string `json:"new"`
	} `json:"edits"`
}

func die(format string, a ...interface{}) {
	fmt.Fprintf(os.Stderr, "CHECK-BROKEN: ovgen: "+format+"\n", a...)
	os.Exit(2)
}

func abs(repo, f string) string {
	if filepath.IsAbs(f) {
		return f
	}
	return filepath.Join(repo, f)
}

func main() {
	group := flag.String("group", "", "check group")
	repo := flag.String("repo", "/repo", "repository root")
	root := flag.String("root", "/verif", "verif root")
	out := flag.String("out", "", "output dir (default <root>/.build/<group>)")
	flag.Parse()
	if *group == "" {
		die("no group")
	}
	if *out == "" {
		*out = filepath.Join(*root, ".build", *group)
	}
	gen := filepath.Join(*out, "_gen")
	os.RemoveAll(gen)
	if err := os.MkdirAll(gen, 0o755); err != nil {
		die("%v", err)
	}
	replace := map[string]string{}
	// content of repo files that get modified (mutant edits and/or import rewrites)
	modified := map[string][]byte{}
	load := func(path string) []byte {
		if b, ok := modified[path]; ok {
			return b
		}
		b, err := os.ReadFile(path)
		if err != nil {
			die("read %s: %v", path, err)
		}
		return b
	}

	if mf := os.Getenv("VERIF_MUTANT"); mf != "" {
		b, err := os.ReadFile(mf)
		if err != nil {
			die("mutant: %v", err)
		}
		var m mutant
		if err := json.Unmarshal(b, &m); err != nil {
			die("mutant %s: %v", mf, err)
		}
		for _, e := range m.Edits {
			p := abs(*repo, e.File)
			src := load(p)
			if n := bytes.Count(src, []byte(e.Old)); n != 1 {
				die("mutant %s: %q occurs %d times in %s (need exactly 1)", mf, e.Old, n, e.File)
			}
			modified[p] = bytes.Replace(src, []byte(e.Old), []byte(e.New), 1)
		}
	}

	boltDir := ""
	resolve := func(f string) string {
		if strings.Contains(f, "$BOLT") {
			if boltDir == "" {
				cmd := exec.Command("go", "list", "-m", "-f", "{{.Dir}}", "github.com/boltdb/bolt")
				cmd.Dir = *root
				out, err := cmd.Output()
				if err != nil || len(bytes.TrimSpace(out)) == 0 {
					die("cannot locate the bolt module: %v", err)
				}
				boltDir = string(bytes.TrimSpace(out))
			}
			f = strings.ReplaceAll(f, "$BOLT", boltDir)
		}
		return f
	}
	for _, g := range []string{"common", *group} {
		base := filepath.Join(*root, "overlay", g)
		if _, err := os.Stat(base); err != nil {
			continue
		}
		// always-on textual edits (same format as a mutant; "file" may be absolute or start with $BOLT): recorder hooks in third-party code
		if eb, err := os.ReadFile(filepath.Join(base, "edits.json")); err == nil {
			var m mutant
			if err := json.Unmarshal(eb, &m); err != nil {
				die("%s/edits.json: %v", g, err)
			}
			for _, e := range m.Edits {
				p := abs(*repo, resolve(e.File))
				src := load(p)
				if n := bytes.Count(src, []byte(e.Old)); n != 1 {
					die("%s/edits.json: %q occurs %d times in %s (need exactly 1)", g, e.Old, n, e.File)
				}
				modified[p] = bytes.Replace(src, []byte(e.Old), []byte(e.New), 1)
			}
			for _, a := range m.Add {
				replace[resolve(a.Path)] = filepath.Join(base, a.Source)
			}
		}
		// added files
		filepath.Walk(base, func(p string, info os.FileInfo, err error) error {
			if err != nil || info.IsDir() || !strings.HasSuffix(p, ".go") || strings.Contains(p, "/_files/") {
				return nil
			}
			rel, _ := filepath.Rel(base, p)
			replace[filepath.Join(*repo, rel)] = p
			return nil
		})
		// import rewrites
		rb, err := os.ReadFile(filepath.Join(base, "rewrites.json"))
		if err != nil {
			continue
		}
		var rws []rewrite
		if err := json.Unmarshal(rb, &rws); err != nil {
			die("%s/rewrites.json: %v", g, err)
		}
		for _, rw := range rws {
			p := abs(*repo, rw.File)
			src := load(p)
			fset := token.NewFileSet()
			f, err := parser.ParseFile(fset, p, src, parser.ParseComments)
			if err != nil {
				die("parse %s: %v", p, err)
			}
			done := map[string]bool{}
			for _, is := range f.Imports {
				path, _ := strconv.Unquote(is.Path.Value)
				to, ok := rw.Imports[path]
				if !ok {
					continue
				}
				done[path] = true
				if is.Name == nil {
					// keep the package's original local name
					is.Name = ast.NewIdent(filepath.Base(path))
				}
				is.Path.Value = strconv.Quote(to)
			}
			for from := range rw.Imports {
				if !done[from] {
					die("rewrite %s: import %q not found (file changed?)", rw.File, from)
				}
			}
			var buf bytes.Buffer
			if err := format.Node(&buf, fset, f); err != nil {
				die("print %s: %v", p, err)
			}
			modified[p] = buf.Bytes()
		}
	}

	names := make([]string, 0, len(modified))
	for p := range modified {
		names = append(names, p)
	}
	sort.Strings(names)
	for _, p := range names {
		dst := filepath.Join(gen, strings.ReplaceAll(strings.TrimPrefix(p, "/"), "/", "__"))
		if err := os.WriteFile(dst, modified[p], 0o644); err != nil {
			die("%v", err)
		}
		replace[p] = dst
	}
	ob, _ := json.MarshalIndent(map[string]interface{}{"Replace": replace}, "", " ")
	if err := os.WriteFile(filepath.Join(*out, "overlay.json"), ob, 0o644); err != nil {
		die("%v", err)
	}
	fmt.Printf("ovgen: group=%s files=%d\n", *group, len(replace))
}
