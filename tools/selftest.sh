#!/bin/bash
# tools/selftest.sh <Cnn> [mutant.json ...]
# For each deliberate property-breaking change (mutants/<Cnn>-*.json, applied as a build overlay — /repo is never edited):
#   (a) the repository's own tests of the touched packages still pass with the change (so the suite misses it), unless "skip_repo_tests": true
#   (b) ./run <Cnn> quick exits 1 with a VIOLATION line.
# Prints one line per mutant: DETECTED / MISSED / TESTS-CATCH-IT / BROKEN.
cd "$(dirname "$0")/.." || exit 2
ROOT=$(pwd)
export GOFLAGS=-mod=mod GOPROXY=off GOSUMDB=off GOTOOLCHAIN=local GOCACHE=$ROOT/.cache
id=$1; shift
muts=("$@"); [ ${#muts[@]} -eq 0 ] && muts=(mutants/$id-*.json)
rc=0
for m in "${muts[@]}"; do
  [ -f "$m" ] || { echo "no mutant $m"; continue; }
  m=$(realpath "$m")
  name=$(basename "$m" .json)
  if [ "$(jq -r '.skip_repo_tests // false' "$m")" != "true" ] && [ -z "$SELFTEST_SKIP_REPO_TESTS" ]; then
    O=$ROOT/.build/selftest.$name; mkdir -p "$O"
    VERIF_MUTANT=$m .build/ovgen -group none -out "$O" >/dev/null || { echo "$name BROKEN (mutant does not apply)"; rc=2; continue; }
    pkgs=$(jq -r '.edits[].file' "$m" | xargs -n1 dirname | sort -u | sed 's#^#./#')
    runflag=$(jq -r '.repo_test_run // ""' "$m")
    # gnet's tests bind fixed ports: run them in a private network namespace so that concurrent selftests cannot collide
    ns=""; case "$pkgs" in *daemon/gnet*) ns="unshare -n sh -c" ;; esac
    runtests() {
      local cmd="timeout 1500 go test -overlay $O/overlay.json -vet=off -count=1 ${runflag:+-run '$runflag'} -skip 'TestErrMissingSignatureRecreateDB|TestIsWritable|TestServiceNewAddresses' $(echo $pkgs)"
      if [ -n "$ns" ]; then (cd /repo && unshare -n sh -c "ip link set lo up && $cmd" >"$O/test.log" 2>&1); else (cd /repo && sh -c "$cmd" >"$O/test.log" 2>&1); fi
    }
    # a few repository tests are flaky without any change (transaction TestCreate, pex TestPexAddPeers): a failure must repeat 3 times
    if ! runtests && ! runtests && ! runtests; then
      echo "$name TESTS-CATCH-IT (see $O/test.log)"; rc=3; continue
    fi
  fi
  out=$(VERIF_MUTANT=$m ./run $id quick 2>&1); code=$?
  rm -rf "$ROOT/.build/"*".mut.$name" "$ROOT/.build/selftest.$name/overlay.json" 2>/dev/null
  if [ $code -eq 1 ] && echo "$out" | grep -q "^VIOLATION property=$id "; then
    echo "$name DETECTED: $(echo "$out" | grep -m1 '^  detail:' )"
  elif [ $code -eq 0 ]; then echo "$name MISSED"; rc=1
  else echo "$name BROKEN (exit $code): $(echo "$out" | tail -3)"; rc=2
  fi
done
exit $rc
