#!/bin/bash
# tools/selftest_all.sh <parallelism> <ids...>: runs tools/selftest.sh for the ids, one mutant per job.
cd "$(dirname "$0")/.."
par=$1; shift
for id in "$@"; do ls mutants/$id-*.json 2>/dev/null | sed "s#^#$id #"; done | xargs -P "$par" -L1 bash -c 'tools/selftest.sh $0 $1 2>&1 | tail -1'
