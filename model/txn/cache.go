package txn

import "sync"

// RecCache memoises the (pure, deterministic) reference signature recovery verdict.
type RecCache struct {
	mu sync.RWMutex
	m  map[[97]byte]bool
}

func NewRecCache() *RecCache { return &RecCache{m: map[[97]byte]bool{}} }

func key(sig [65]byte, z [32]byte) (k [97]byte) {
	copy(k[:65], sig[:])
	copy(k[65:], z[:])
	return
}

func (c *RecCache) get(sig [65]byte, z [32]byte) (bool, bool) {
	c.mu.RLock()
	v, ok := c.m[key(sig, z)]
	c.mu.RUnlock()
	return v, ok
}

func (c *RecCache) put(sig [65]byte, z [32]byte, v bool) {
	c.mu.Lock()
	c.m[key(sig, z)] = v
	c.mu.Unlock()
}

func (c *RecCache) Len() int {
	c.mu.RLock()
	defer c.mu.RUnlock()
	return len(c.m)
}
