package txn

import (
	"math/big"
	"math/bits"
)

// UxIn is an unspent output being spent, as the soft / hard rules see it.
type UxIn struct {
	Owner [21]byte
	Coins uint64 // droplets
	Hours uint64 // hours at creation
	Time  uint64 // creation time (seconds)
}

// SoftParams are the node's adjustable verification parameters.
type SoftParams struct {
	BurnFactor uint32
	MaxSize    uint32
	Precision  uint8 // allowed decimal places, 0..6
	Locked     map[[21]byte]bool
}

var (
	big3600e6 = new(big.Int).Mul(big.NewInt(3600), big.NewInt(1000000))
)

// Accrued: hours(t) = h0 + floor(coins*(t-t0) / 3.6e9) for t >= t0, h0 for t < t0 (exact, unbounded).
func Accrued(in UxIn, head uint64) *big.Int {
	h := new(big.Int).SetUint64(in.Hours)
	if head < in.Time {
		return h
	}
	e := new(big.Int).Mul(new(big.Int).SetUint64(in.Coins), new(big.Int).SetUint64(head-in.Time))
	e.Div(e, big3600e6)
	return h.Add(h, e)
}

// Soft rule names.
const (
	SoftSize      = "size-over-limit"
	SoftNoFee     = "fee-not-positive"
	SoftLowFee    = "fee-below-ceil(total/burnfactor)"
	SoftLocked    = "spends-locked-distribution-output"
	SoftPrecision = "output-precision"
)

// SoftResult: Violated lists the soft rules the transaction breaks (math over unbounded integers);
// Representable is false when the input-hour total (or one input's hours) does not fit 64 bits, i.e. the
// transaction is outside the range on which the node's arithmetic is defined.
type SoftResult struct {
	Violated      []string
	Representable bool
	InHours       *big.Int
	OutHours      *big.Int
	Required      *big.Int
}

// Soft evaluates the statement of C11: size <= limit; fee = in hours (at head) - out hours, fee > 0 and
// fee >= ceil(in hours / burn factor); no input owned by a locked distribution address; every output amount a
// multiple of 10^(6-precision).
func Soft(t *Tx, ins []UxIn, head uint64, p SoftParams) SoftResult {
	res := SoftResult{Representable: true}
	if t.EncodedSize() > uint64(p.MaxSize) {
		res.Violated = append(res.Violated, SoftSize)
	}
	T := new(big.Int)
	for _, in := range ins {
		a := Accrued(in, head)
		if a.Cmp(two64) >= 0 {
			res.Representable = false
		}
		T.Add(T, a)
	}
	if T.Cmp(two64) >= 0 {
		res.Representable = false
	}
	O := sumHours(t.Out)
	fee := new(big.Int).Sub(T, O)
	bf := new(big.Int).SetUint64(uint64(p.BurnFactor))
	req := new(big.Int).Add(T, new(big.Int).Sub(bf, big.NewInt(1)))
	req.Div(req, bf)
	res.InHours, res.OutHours, res.Required = T, O, req
	if fee.Sign() <= 0 {
		res.Violated = append(res.Violated, SoftNoFee)
	} else if fee.Cmp(req) < 0 {
		res.Violated = append(res.Violated, SoftLowFee)
	}
	for _, in := range ins {
		if p.Locked[in.Owner] {
			res.Violated = append(res.Violated, SoftLocked)
			break
		}
	}
	div := uint64(1) // 10^(6-precision) <= 10^6: plain 64-bit remainder is exact
	for i := 0; i < 6-int(p.Precision); i++ {
		div *= 10
	}
	for _, o := range t.Out {
		if o.Coins%div != 0 {
			res.Violated = append(res.Violated, SoftPrecision)
			break
		}
	}
	return res
}

// sumHours adds the output hours exactly (128-bit accumulator, converted to big.Int once).
func sumHours(outs []Out) *big.Int {
	var hi, lo uint64
	for i := range outs {
		var c uint64
		lo, c = bits.Add64(lo, outs[i].Hours, 0)
		hi += c
	}
	r := new(big.Int).SetUint64(hi)
	r.Lsh(r, 64)
	return r.Add(r, new(big.Int).SetUint64(lo))
}

// Hard rule names (single transaction, DESIGN Appendix B) — only the arithmetic rules; well-formedness is WellFormed.
const (
	HardCoinsCreated   = "creates-coins"
	HardCoinsDestroyed = "destroys-coins"
	HardCoinsOverflow  = "coins-sum-overflow"
	HardInHoursUncomp  = "input-hours-not-computable"
	HardOutHoursOver   = "output-hours-sum-overflow"
	HardHoursCreated   = "creates-hours"
)

// HardArith evaluates the arithmetic hard rules of a single (not in a block) transaction.
func HardArith(t *Tx, ins []UxIn, head uint64) []string {
	var bad []string
	ci, co := new(big.Int), new(big.Int)
	for _, in := range ins {
		ci.Add(ci, new(big.Int).SetUint64(in.Coins))
	}
	for _, o := range t.Out {
		co.Add(co, new(big.Int).SetUint64(o.Coins))
	}
	if ci.Cmp(two64) >= 0 || co.Cmp(two64) >= 0 {
		bad = append(bad, HardCoinsOverflow)
	}
	if c := ci.Cmp(co); c < 0 {
		bad = append(bad, HardCoinsCreated)
	} else if c > 0 {
		bad = append(bad, HardCoinsDestroyed)
	}
	T := new(big.Int)
	uncomp := false
	for _, in := range ins {
		if head >= in.Time {
			// the documented computation multiplies seconds by whole coins and by the droplet remainder in 64 bits
			sec := new(big.Int).SetUint64(head - in.Time)
			if new(big.Int).Mul(sec, new(big.Int).SetUint64(in.Coins/1000000)).Cmp(two64) >= 0 ||
				new(big.Int).Mul(sec, new(big.Int).SetUint64(in.Coins%1000000)).Cmp(two64) >= 0 {
				uncomp = true
			}
		}
		a := Accrued(in, head)
		if a.Cmp(two64) >= 0 {
			uncomp = true
		}
		T.Add(T, a)
	}
	if T.Cmp(two64) >= 0 {
		uncomp = true
	}
	if uncomp {
		bad = append(bad, HardInHoursUncomp)
	}
	O := sumHours(t.Out)
	if O.Cmp(two64) >= 0 {
		bad = append(bad, HardOutHoursOver)
	}
	if O.Cmp(T) > 0 {
		bad = append(bad, HardHoursCreated)
	}
	return bad
}
