// Package txn holds the reference predicates of the txn group, transcribed from the property statements
// (C09 well-formedness, C11 soft rules, the single-transaction hard rules of DESIGN Appendix B) and an
// independent transaction encoder.  It imports nothing from skycoin: transactions are plain structs.
package txn

import (
	"crypto/sha256"
	"encoding/binary"
	"math/big"

	"verif/model/txnsecp"
)

// Out is one transaction output; Addr = version byte || 20-byte key hash (the encoded order).
type Out struct {
	Addr  [21]byte
	Coins uint64
	Hours uint64
}

// Tx mirrors the documented layout: Length u32, Type u8, InnerHash 32, Sigs [](65), In [](32), Out [](21+8+8),
// every list with a u32 little-endian count prefix.
type Tx struct {
	Length uint32
	Type   uint8
	Inner  [32]byte
	Sigs   [][65]byte
	In     [][32]byte
	Out    []Out
}

const MaxList = 65535

// EncodedSize is 4+1+32 + (4+65s) + (4+32i) + (4+37o).
func (t *Tx) EncodedSize() uint64 {
	return 37 + 4 + 65*uint64(len(t.Sigs)) + 4 + 32*uint64(len(t.In)) + 4 + 37*uint64(len(t.Out))
}

func appendOuts(b []byte, outs []Out) []byte {
	var u [8]byte
	binary.LittleEndian.PutUint32(u[:4], uint32(len(outs)))
	b = append(b, u[:4]...)
	for i := range outs {
		b = append(b, outs[i].Addr[:]...)
		binary.LittleEndian.PutUint64(u[:], outs[i].Coins)
		b = append(b, u[:]...)
		binary.LittleEndian.PutUint64(u[:], outs[i].Hours)
		b = append(b, u[:]...)
	}
	return b
}

func appendIns(b []byte, ins [][32]byte) []byte {
	var u [4]byte
	binary.LittleEndian.PutUint32(u[:], uint32(len(ins)))
	b = append(b, u[:]...)
	for i := range ins {
		b = append(b, ins[i][:]...)
	}
	return b
}

// Encodable: every list fits the 65535 element bound of the format.
func (t *Tx) Encodable() bool {
	return len(t.Sigs) <= MaxList && len(t.In) <= MaxList && len(t.Out) <= MaxList
}

// Encode is the reference serialisation (caller checks Encodable).
func (t *Tx) Encode() []byte {
	b := make([]byte, 0, t.EncodedSize())
	var u [4]byte
	binary.LittleEndian.PutUint32(u[:], t.Length)
	b = append(b, u[:]...)
	b = append(b, t.Type)
	b = append(b, t.Inner[:]...)
	binary.LittleEndian.PutUint32(u[:], uint32(len(t.Sigs)))
	b = append(b, u[:]...)
	for i := range t.Sigs {
		b = append(b, t.Sigs[i][:]...)
	}
	b = appendIns(b, t.In)
	b = appendOuts(b, t.Out)
	return b
}

// InnerHash = SHA-256(enc(inputs) || enc(outputs)).
func (t *Tx) InnerHash() [32]byte {
	b := make([]byte, 0, 8+32*len(t.In)+37*len(t.Out))
	b = appendIns(b, t.In)
	b = appendOuts(b, t.Out)
	return sha256.Sum256(b)
}

// SigHash(i) = SHA-256(inner || input_i): the digest signature i must sign.
func SigHash(inner, in [32]byte) [32]byte {
	var b [64]byte
	copy(b[:32], inner[:])
	copy(b[32:], in[:])
	return sha256.Sum256(b[:])
}

// SigRecoverable: the signature is non-null, has its s high bit clear and a recovery id below 4, and a public key can
// be recovered from it for digest z (textbook recovery).  cache may be nil.
func SigRecoverable(sig [65]byte, z [32]byte, cache *RecCache) bool {
	if sig[32]>>7 == 1 || sig[64] >= 4 {
		return false
	}
	if cache != nil {
		if v, ok := cache.get(sig, z); ok {
			return v
		}
	}
	_, ok := txnsecp.Recover(txnsecp.ParseSig(sig), new(big.Int).SetBytes(z[:]))
	if cache != nil {
		cache.put(sig, z, ok)
	}
	return ok
}

// Reasons a transaction is not well formed (one per clause of the statement).
const (
	OK            = "ok"
	NoInputs      = "no-inputs"
	NoOutputs     = "no-outputs"
	SigCount      = "sig-count"
	TooMany       = "too-many-elements"
	DupInput      = "duplicate-input"
	DupOutput     = "duplicate-output"
	BadType       = "type"
	ZeroCoins     = "zero-coin-output"
	CoinsOverflow = "output-coins-overflow"
	BadLength     = "length-field"
	BadInner      = "inner-hash"
	NullSig       = "null-signature-in-signed"
	BadSig        = "signature-not-recoverable"
	NoNullSig     = "unsigned-without-null-signature"
)

var two64 = new(big.Int).Lsh(big.NewInt(1), 64)

// WellFormed evaluates EVERY clause of the statement and returns the list of violated ones (empty = well formed).
// signed=false is the "unsigned" judgement: null signatures are allowed in place of missing ones and at least one must be null.
func WellFormed(t *Tx, signed bool, cache *RecCache) []string {
	s, u := WellFormedBoth(t, cache)
	if signed {
		return s
	}
	return u
}

// WellFormedBoth returns the violated clauses under the signed and under the unsigned judgement (the clauses that do
// not depend on the judgement are evaluated once).
func WellFormedBoth(t *Tx, cache *RecCache) (signedBad, unsignedBad []string) {
	var bad []string
	if len(t.In) == 0 {
		bad = append(bad, NoInputs)
	}
	if len(t.Out) == 0 {
		bad = append(bad, NoOutputs)
	}
	if len(t.Sigs) != len(t.In) {
		bad = append(bad, SigCount)
	}
	if !t.Encodable() {
		bad = append(bad, TooMany)
	}
	ins := make(map[[32]byte]struct{}, len(t.In))
	for _, h := range t.In {
		ins[h] = struct{}{}
	}
	if len(ins) != len(t.In) {
		bad = append(bad, DupInput)
	}
	outs := make(map[Out]struct{}, len(t.Out))
	for _, o := range t.Out {
		outs[o] = struct{}{}
	}
	if len(outs) != len(t.Out) {
		bad = append(bad, DupOutput)
	}
	if t.Type != 0 {
		bad = append(bad, BadType)
	}
	sum := new(big.Int)
	zero := false
	for _, o := range t.Out {
		if o.Coins == 0 {
			zero = true
		}
		sum.Add(sum, new(big.Int).SetUint64(o.Coins))
	}
	if zero {
		bad = append(bad, ZeroCoins)
	}
	if sum.Cmp(two64) >= 0 {
		bad = append(bad, CoinsOverflow)
	}
	if t.Encodable() {
		if uint64(t.Length) != t.EncodedSize() {
			bad = append(bad, BadLength)
		}
		if t.InnerHash() != t.Inner {
			bad = append(bad, BadInner)
		}
	}
	nNull := 0
	badSig := false
	for i, s := range t.Sigs {
		if s == ([65]byte{}) {
			nNull++
			continue
		}
		if i >= len(t.In) {
			continue // no digest exists for a surplus signature; the count clause already fails
		}
		if !SigRecoverable(s, SigHash(t.Inner, t.In[i]), cache) {
			badSig = true
		}
	}
	if badSig {
		bad = append(bad, BadSig)
	}
	signedBad = append([]string(nil), bad...)
	unsignedBad = append([]string(nil), bad...)
	if nNull > 0 {
		signedBad = append(signedBad, NullSig)
	}
	if nNull == 0 {
		unsignedBad = append(unsignedBad, NoNullSig)
	}
	return signedBad, unsignedBad
}
