package bip

import (
	"bytes"
	"encoding/hex"
	"fmt"
	"math/big"

	"golang.org/x/crypto/ripemd160"

	"verif/model/base58"
	"verif/model/secp"
)

// SelfCheck validates the reference models against published vectors written down from the standards
// (SEC2 multiples of G, RIPEMD-160 paper vectors, BIP32 test vector 1, BIP39 "abandon…about" vectors).
// A failure means the MODEL is wrong: the caller must report CHECK-BROKEN, never a violation.
func SelfCheck(w *Words) error {
	// multiples of the base point
	mults := []struct{ k, x, y string }{
		{"2", "C6047F9441ED7D6D3045406E95C07CD85C778E4B8CEF3CA7ABAC09B95C709EE5", "1AE168FEA63DC339A3C58419466CEAEEF7F632653266D0E1236431A950CFE52A"},
		{"3", "F9308A019258C31049344F85F89D5229B531C845836F99B08601F113BCE036F9", "388F7B0F632DE8140FE337E62A37F3566500A99934C2231B6CB9FD7584B8E672"},
	}
	for _, m := range mults {
		k, _ := new(big.Int).SetString(m.k, 16)
		p := secp.BaseMul(k)
		x, _ := new(big.Int).SetString(m.x, 16)
		y, _ := new(big.Int).SetString(m.y, 16)
		if p.Inf || p.X.Cmp(x) != 0 || p.Y.Cmp(y) != 0 {
			return fmt.Errorf("model/secp: %s*G wrong", m.k)
		}
	}
	if !secp.BaseMul(secp.N).Inf {
		return fmt.Errorf("model/secp: n*G is not infinity")
	}
	if !secp.Equal(secp.BaseMul(new(big.Int).Sub(secp.N, big.NewInt(1))), secp.Neg(secp.G())) {
		return fmt.Errorf("model/secp: (n-1)*G != -G")
	}
	if !secp.OnCurve(secp.G()) {
		return fmt.Errorf("model/secp: G not on curve")
	}
	// sign / verify / recover agree with each other
	d, z, k := big.NewInt(0x1234567), big.NewInt(0xabcdef), big.NewInt(0x7777)
	sg, ok := secp.SignWithNonce(d, z, k, true)
	if !ok || !secp.Verify(secp.BaseMul(d), z, sg.R, sg.S) {
		return fmt.Errorf("model/secp: own signature does not verify")
	}
	if q, ok := secp.Recover(z, sg.R, sg.S, sg.RecID); !ok || !secp.Equal(q, secp.BaseMul(d)) {
		return fmt.Errorf("model/secp: own signature does not recover")
	}
	if secp.Verify(secp.BaseMul(d), big.NewInt(0xabcdee), sg.R, sg.S) {
		return fmt.Errorf("model/secp: verifies a wrong message")
	}
	// RIPEMD-160
	r := ripemd160.New()
	r.Write([]byte("abc"))
	if hex.EncodeToString(r.Sum(nil)) != "8eb208f7e05d987a9b044a8e98c6b087f15a0bfc" {
		return fmt.Errorf("ripemd160 vector")
	}
	// base58
	if base58.Encode([]byte{0, 0, 1}) != "112" || base58.Encode([]byte("Hello World!")) != "2NEpo7TZRRrLZSi2U" {
		return fmt.Errorf("model/base58: vector")
	}
	// BIP32 test vector 1
	seed, _ := hex.DecodeString("000102030405060708090a0b0c0d0e0f")
	m, err := Master(seed)
	if err != nil {
		return err
	}
	type step struct {
		idx        uint32
		xpub, xprv string
	}
	if m.String() != "xprv9s21ZrQH143K3QTDL4LXw2F7HEK3wJUD2nW2nRk4stbPy6cq3jPPqjiChkVvvNKmPGJxWUtg6LnF5kejMRNNU3TGtRBeJgk33yuGBxrMPHi" ||
		m.Neuter().String() != "xpub661MyMwAqRbcFtXgS5sYJABqqG9YLmC4Q1Rdap9gSE8NqtwybGhePY2gZ29ESFjqJoCu1Rupje8YtGqsefD265TMg7usUDFdp6W1EGMcet8" {
		return fmt.Errorf("model/bip: BIP32 TV1 master: %s %s", m.String(), m.Neuter().String())
	}
	steps := []step{
		{Hardened + 0, "xpub68Gmy5EdvgibQVfPdqkBBCHxA5htiqg55crXYuXoQRKfDBFA1WEjWgP6LHhwBZeNK1VTsfTFUHCdrfp1bgwQ9xv5ski8PX9rL2dZXvgGDnw", "xprv9uHRZZhk6KAJC1avXpDAp4MDc3sQKNxDiPvvkX8Br5ngLNv1TxvUxt4cV1rGL5hj6KCesnDYUhd7oWgT11eZG7XnxHrnYeSvkzY7d2bhkJ7"},
		{1, "xpub6ASuArnXKPbfEwhqN6e3mwBcDTgzisQN1wXN9BJcM47sSikHjJf3UFHKkNAWbWMiGj7Wf5uMash7SyYq527Hqck2AxYysAA7xmALppuCkwQ", "xprv9wTYmMFdV23N2TdNG573QoEsfRrWKQgWeibmLntzniatZvR9BmLnvSxqu53Kw1UmYPxLgboyZQaXwTCg8MSY3H2EU4pWcQDnRnrVA1xe8fs"},
		{Hardened + 2, "xpub6D4BDPcP2GT577Vvch3R8wDkScZWzQzMMUm3PWbmWvVJrZwQY4VUNgqFJPMM3No2dFDFGTsxxpG5uJh7n7epu4trkrX7x7DogT5Uv6fcLW5", "xprv9z4pot5VBttmtdRTWfWQmoH1taj2axGVzFqSb8C9xaxKymcFzXBDptWmT7FwuEzG3ryjH4ktypQSAewRiNMjANTtpgP4mLTj34bhnZX7UiM"},
		{2, "xpub6FHa3pjLCk84BayeJxFW2SP4XRrFd1JYnxeLeU8EqN3vDfZmbqBqaGJAyiLjTAwm6ZLRQUMv1ZACTj37sR62cfN7fe5JnJ7dh8zL4fiyLHV", "xprvA2JDeKCSNNZky6uBCviVfJSKyQ1mDYahRjijr5idH2WwLsEd4Hsb2Tyh8RfQMuPh7f7RtyzTtdrbdqqsunu5Mm3wDvUAKRHSC34sJ7in334"},
		{1000000000, "xpub6H1LXWLaKsWFhvm6RVpEL9P4KfRZSW7abD2ttkWP3SSQvnyA8FSVqNTEcYFgJS2UaFcxupHiYkro49S8yGasTvXEYBVPamhGW6cFJodrTHy", "xprvA41z7zogVVwxVSgdKUHDy1SKmdb533PjDz7J6N6mV6uS3ze1ai8FHa8kmHScGpWmj4WggLyQjgPie1rFSruoUihUZREPSL39UNdE3BBDu76"},
	}
	cur := m
	for n, s := range steps {
		prev := cur
		cur, err = cur.CKDpriv(s.idx)
		if err != nil {
			return err
		}
		if cur.String() != s.xprv || cur.Neuter().String() != s.xpub {
			return fmt.Errorf("model/bip: BIP32 TV1 step %d: got %s / %s", n, cur.String(), cur.Neuter().String())
		}
		if s.idx < Hardened {
			pc, err := prev.Neuter().CKDpub(s.idx)
			if err != nil || pc.String() != s.xpub {
				return fmt.Errorf("model/bip: BIP32 TV1 step %d: CKDpub disagrees", n)
			}
		}
		back, err := Parse(s.xprv, true)
		if err != nil || back.String() != s.xprv {
			return fmt.Errorf("model/bip: parse/serialise round trip of TV1 step %d: %v", n, err)
		}
	}
	// BIP39 vectors (trezor python-mnemonic vectors.json, passphrase "TREZOR") and the empty-passphrase seed
	if w != nil {
		abandon := "abandon abandon abandon abandon abandon abandon abandon abandon abandon abandon abandon about"
		got, err := w.Mnemonic(make([]byte, 16))
		if err != nil || got != abandon {
			return fmt.Errorf("model/bip: BIP39 zero entropy gives %q", got)
		}
		ent, err := w.Entropy(abandon)
		if err != nil || !bytes.Equal(ent, make([]byte, 16)) {
			return fmt.Errorf("model/bip: BIP39 Entropy(abandon…about): %v", err)
		}
		if hex.EncodeToString(Seed(abandon, "TREZOR")) != "c55257c360c07c72029aebc1b53c05ed0362ada38ead3e3e9efa3708e53495531f09a6987599d18264c1e1c92f2cf141630c7a3c4ab7c81b2f001698e7463b04" {
			return fmt.Errorf("model/bip: BIP39 seed vector (TREZOR)")
		}
		if hex.EncodeToString(Seed(abandon, "")) != "5eb00bbddcf069084889a8ab9155568165f5c453ccb85e70811aaed6f6da5fc19a5ac40b389cd370d086206dec8aa6c43daea6690f20ad3d8d48b2d2ce9e38e4" {
			return fmt.Errorf("model/bip: BIP39 seed vector (empty passphrase)")
		}
		ff := bytes.Repeat([]byte{0xff}, 16)
		if got, _ := w.Mnemonic(ff); got != "zoo zoo zoo zoo zoo zoo zoo zoo zoo zoo zoo wrong" {
			return fmt.Errorf("model/bip: BIP39 ff entropy gives %q", got)
		}
		l7f := bytes.Repeat([]byte{0x7f}, 16)
		if got, _ := w.Mnemonic(l7f); got != "legal winner thank year wave sausage worth useful legal winner thank yellow" {
			return fmt.Errorf("model/bip: BIP39 7f entropy gives %q", got)
		}
		if _, err := w.Entropy("abandon abandon abandon abandon abandon abandon abandon abandon abandon abandon abandon abandon"); err != ErrChecksum {
			return fmt.Errorf("model/bip: 12×abandon should fail the checksum, got %v", err)
		}
	}
	return nil
}
