package bip

import (
	"testing"

	"github.com/skycoin/skycoin/src/cipher/bip39/wordlists"
)

func TestSelfCheck(t *testing.T) {
	w, err := NewWords(wordlists.English)
	if err != nil {
		t.Fatal(err)
	}
	if err := SelfCheck(w); err != nil {
		t.Fatal(err)
	}
}
