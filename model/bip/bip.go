// Package bip is an independent implementation of BIP39, BIP32 and the BIP44 path shape, written from the
// BIP texts.  HMAC-SHA512 / SHA256 come from the Go standard library, RIPEMD160 and NFKD from golang.org/x,
// PBKDF2 is the loop below, point arithmetic is verif/model/secp, base58 is verif/model/base58.
// It imports nothing from skycoin.  The BIP39 word list is supplied by the caller as data.
package bip

import (
	"crypto/hmac"
	"crypto/sha256"
	"crypto/sha512"
	"encoding/binary"
	"errors"
	"fmt"
	"math/big"
	"strings"

	"golang.org/x/crypto/ripemd160"
	"golang.org/x/text/unicode/norm"

	"verif/model/base58"
	"verif/model/secp"
)

// ---------------------------------------------------------------- BIP39

// Words is the 2048-word list (data).
type Words struct {
	List  []string
	Index map[string]int
}

func NewWords(list []string) (*Words, error) {
	if len(list) != 2048 {
		return nil, fmt.Errorf("word list has %d entries", len(list))
	}
	w := &Words{List: list, Index: map[string]int{}}
	for i, s := range list {
		if _, dup := w.Index[s]; dup {
			return nil, fmt.Errorf("duplicate word %q", s)
		}
		w.Index[s] = i
	}
	return w, nil
}

var ErrEntropySize = errors.New("entropy must be 128, 160, 192, 224 or 256 bits")

// bits returns the bits of b, most significant first.
func bits(b []byte) []byte {
	out := make([]byte, 0, len(b)*8)
	for _, x := range b {
		for i := 7; i >= 0; i-- {
			out = append(out, (x>>uint(i))&1)
		}
	}
	return out
}

// Mnemonic: "ENT bits of entropy, checksum = first ENT/32 bits of SHA256(entropy), appended; split into groups
// of 11 bits, each an index into the word list"; words joined by one space.
func (w *Words) Mnemonic(entropy []byte) (string, error) {
	n := len(entropy) * 8
	if n < 128 || n > 256 || n%32 != 0 {
		return "", ErrEntropySize
	}
	h := sha256.Sum256(entropy)
	bs := append(bits(entropy), bits(h[:])[:n/32]...)
	var words []string
	for i := 0; i < len(bs); i += 11 {
		idx := 0
		for j := 0; j < 11; j++ {
			idx = idx<<1 | int(bs[i+j])
		}
		words = append(words, w.List[idx])
	}
	return strings.Join(words, " "), nil
}

// Reasons a sentence is not a mnemonic.
var (
	ErrShape    = errors.New("not words separated by single spaces")
	ErrCount    = errors.New("word count is not 12, 15, 18, 21 or 24")
	ErrWord     = errors.New("word not in the list")
	ErrChecksum = errors.New("checksum bits do not match")
)

// Entropy inverts Mnemonic. The sentence must be exactly words joined by single U+0020.
func (w *Words) Entropy(m string) ([]byte, error) {
	if m == "" {
		return nil, ErrShape
	}
	ws := strings.Split(m, " ")
	for _, x := range ws {
		if x == "" || strings.TrimSpace(x) != x {
			return nil, ErrShape
		}
	}
	if strings.TrimSpace(m) != m {
		return nil, ErrShape
	}
	switch len(ws) {
	case 12, 15, 18, 21, 24:
	default:
		return nil, ErrCount
	}
	var bs []byte
	for _, x := range ws {
		idx, ok := w.Index[x]
		if !ok {
			return nil, ErrWord
		}
		for j := 10; j >= 0; j-- {
			bs = append(bs, byte(idx>>uint(j))&1)
		}
	}
	cs := len(bs) / 33
	ent := make([]byte, (len(bs)-cs)/8)
	for i := range ent {
		for j := 0; j < 8; j++ {
			ent[i] = ent[i]<<1 | bs[i*8+j]
		}
	}
	h := sha256.Sum256(ent)
	hb := bits(h[:])
	for i := 0; i < cs; i++ {
		if hb[i] != bs[len(ent)*8+i] {
			return nil, ErrChecksum
		}
	}
	return ent, nil
}

// PBKDF2HMACSHA512 is RFC 2898 section 5.2 with PRF = HMAC-SHA512.
func PBKDF2HMACSHA512(password, salt []byte, iterations, dkLen int) []byte {
	var out []byte
	for block := uint32(1); len(out) < dkLen; block++ {
		mac := hmac.New(sha512.New, password)
		mac.Write(salt)
		var ctr [4]byte
		binary.BigEndian.PutUint32(ctr[:], block)
		mac.Write(ctr[:])
		u := mac.Sum(nil)
		t := append([]byte{}, u...)
		for i := 1; i < iterations; i++ {
			mac = hmac.New(sha512.New, password)
			mac.Write(u)
			u = mac.Sum(nil)
			for j := range t {
				t[j] ^= u[j]
			}
		}
		out = append(out, t...)
	}
	return out[:dkLen]
}

// Seed: PBKDF2(password = NFKD(mnemonic), salt = "mnemonic" + NFKD(passphrase), 2048 rounds, HMAC-SHA512, 64 bytes).
func Seed(mnemonic, passphrase string) []byte {
	return PBKDF2HMACSHA512([]byte(norm.NFKD.String(mnemonic)), []byte("mnemonic"+norm.NFKD.String(passphrase)), 2048, 64)
}

// ---------------------------------------------------------------- BIP32

const Hardened = uint32(0x80000000)

var (
	VersionPrv = [4]byte{0x04, 0x88, 0xAD, 0xE4}
	VersionPub = [4]byte{0x04, 0x88, 0xB2, 0x1E}
)

// Key is an extended key. For a private key Priv != nil; Pub is always the compressed public key.
type Key struct {
	Depth     byte
	ParentFP  [4]byte
	Index     uint32
	ChainCode [32]byte
	Priv      *big.Int // nil for an extended public key
	Pub       []byte   // serP(K)
}

func hmac512(key, data []byte) []byte {
	m := hmac.New(sha512.New, key)
	m.Write(data)
	return m.Sum(nil)
}

func hash160(b []byte) []byte {
	h := sha256.Sum256(b)
	r := ripemd160.New()
	r.Write(h[:])
	return r.Sum(nil)
}

func ser32(i uint32) []byte {
	var b [4]byte
	binary.BigEndian.PutUint32(b[:], i)
	return b[:]
}

var (
	ErrSeedLen     = errors.New("seed must be 128..512 bits")
	ErrInvalidKey  = errors.New("derived key invalid (IL >= n or result zero/infinity)")
	ErrHardenedPub = errors.New("hardened child of a public key")
	ErrDepth       = errors.New("depth overflow")
)

// Master: I = HMAC-SHA512(key "Bitcoin seed", seed); master secret IL, chain code IR; invalid if IL = 0 or >= n.
func Master(seed []byte) (*Key, error) {
	if len(seed) < 16 || len(seed) > 64 {
		return nil, ErrSeedLen
	}
	I := hmac512([]byte("Bitcoin seed"), seed)
	k := new(big.Int).SetBytes(I[:32])
	if !secp.ValidScalar(k) {
		return nil, ErrInvalidKey
	}
	key := &Key{Priv: k, Pub: secp.Compress(secp.BaseMul(k))}
	copy(key.ChainCode[:], I[32:])
	return key, nil
}

// Fingerprint: first 32 bits of HASH160(serP(K)).
func (k *Key) Fingerprint() [4]byte {
	var f [4]byte
	copy(f[:], hash160(k.Pub)[:4])
	return f
}

// Identifier is HASH160(serP(K)).
func (k *Key) Identifier() []byte { return hash160(k.Pub) }

// CKDpriv: hardened: I = HMAC(c, 0x00 || ser256(k) || ser32(i)); normal: I = HMAC(c, serP(point(k)) || ser32(i));
// child key = parse256(IL) + k (mod n); invalid if parse256(IL) >= n or child = 0.
func (k *Key) CKDpriv(i uint32) (*Key, error) {
	if k.Priv == nil {
		panic("CKDpriv on a public key")
	}
	if k.Depth == 255 {
		return nil, ErrDepth
	}
	var data []byte
	if i >= Hardened {
		data = append([]byte{0}, secp.Bytes32(k.Priv)...)
	} else {
		data = append([]byte{}, k.Pub...)
	}
	data = append(data, ser32(i)...)
	I := hmac512(k.ChainCode[:], data)
	il := new(big.Int).SetBytes(I[:32])
	if il.Cmp(secp.N) >= 0 {
		return nil, ErrInvalidKey
	}
	ck := new(big.Int).Add(il, k.Priv)
	ck.Mod(ck, secp.N)
	if ck.Sign() == 0 {
		return nil, ErrInvalidKey
	}
	c := &Key{Depth: k.Depth + 1, ParentFP: k.Fingerprint(), Index: i, Priv: ck, Pub: secp.Compress(secp.BaseMul(ck))}
	copy(c.ChainCode[:], I[32:])
	return c, nil
}

// Neuter: N((k, c)) = (point(k), c).
func (k *Key) Neuter() *Key {
	c := *k
	c.Priv = nil
	c.Pub = append([]byte{}, k.Pub...)
	return &c
}

// CKDpub: only for normal i: I = HMAC(c, serP(K) || ser32(i)); child = point(parse256(IL)) + K;
// invalid if parse256(IL) >= n or the child is the point at infinity.
// (BIP32 does not exclude IL = 0 here; the child would equal the parent. Cryptographically unreachable.)
func (k *Key) CKDpub(i uint32) (*Key, error) {
	if i >= Hardened {
		return nil, ErrHardenedPub
	}
	if k.Depth == 255 {
		return nil, ErrDepth
	}
	data := append(append([]byte{}, k.Pub...), ser32(i)...)
	I := hmac512(k.ChainCode[:], data)
	il := new(big.Int).SetBytes(I[:32])
	if il.Cmp(secp.N) >= 0 {
		return nil, ErrInvalidKey
	}
	K, err := secp.ParseCompressed(k.Pub)
	if err != nil {
		return nil, err
	}
	C := secp.Add(secp.BaseMul(il), K)
	if C.Inf {
		return nil, ErrInvalidKey
	}
	c := &Key{Depth: k.Depth + 1, ParentFP: k.Fingerprint(), Index: i, Pub: secp.Compress(C)}
	copy(c.ChainCode[:], I[32:])
	return c, nil
}

// Serialize: 4 version | 1 depth | 4 parent fingerprint | 4 child number | 32 chain code | 33 key data
// (0x00 || ser256(k) for private, serP(K) for public), 78 bytes.
func (k *Key) Serialize() []byte {
	var out []byte
	if k.Priv != nil {
		out = append(out, VersionPrv[:]...)
	} else {
		out = append(out, VersionPub[:]...)
	}
	out = append(out, k.Depth)
	out = append(out, k.ParentFP[:]...)
	out = append(out, ser32(k.Index)...)
	out = append(out, k.ChainCode[:]...)
	if k.Priv != nil {
		out = append(out, 0)
		out = append(out, secp.Bytes32(k.Priv)...)
	} else {
		out = append(out, k.Pub...)
	}
	return out
}

func check4(b []byte) []byte {
	h1 := sha256.Sum256(b)
	h2 := sha256.Sum256(h1[:])
	return h2[:4]
}

// String is Base58Check(Serialize()).
func (k *Key) String() string {
	s := k.Serialize()
	return base58.Encode(append(s, check4(s)...))
}

// Reasons why a text is not an extended key (BIP32 "test vector 5" rules).
var (
	ErrB58       = errors.New("not base58")
	ErrLen       = errors.New("decoded length is not 82")
	ErrCheck     = errors.New("checksum mismatch")
	ErrVersion   = errors.New("unknown or unexpected version")
	ErrMasterFP  = errors.New("depth 0 with non-zero parent fingerprint")
	ErrMasterIdx = errors.New("depth 0 with non-zero index")
	ErrKeyData   = errors.New("key data invalid")
)

// ParseBytes parses the 82-byte (78 + checksum) form; wantPrivate selects which version is acceptable.
func ParseBytes(b []byte, wantPrivate bool) (*Key, error) {
	if len(b) != 82 {
		return nil, ErrLen
	}
	if string(check4(b[:78])) != string(b[78:]) {
		return nil, ErrCheck
	}
	var ver [4]byte
	copy(ver[:], b[:4])
	isPrv, isPub := ver == VersionPrv, ver == VersionPub
	if !isPrv && !isPub {
		return nil, ErrVersion
	}
	if isPrv != wantPrivate {
		return nil, ErrVersion
	}
	k := &Key{Depth: b[4], Index: binary.BigEndian.Uint32(b[9:13])}
	copy(k.ParentFP[:], b[5:9])
	copy(k.ChainCode[:], b[13:45])
	if k.Depth == 0 {
		if k.ParentFP != [4]byte{} {
			return nil, ErrMasterFP
		}
		if k.Index != 0 {
			return nil, ErrMasterIdx
		}
	}
	if isPrv {
		if b[45] != 0 {
			return nil, ErrKeyData
		}
		d := new(big.Int).SetBytes(b[46:78])
		if !secp.ValidScalar(d) {
			return nil, ErrKeyData
		}
		k.Priv = d
		k.Pub = secp.Compress(secp.BaseMul(d))
	} else {
		if _, err := secp.ParseCompressed(b[45:78]); err != nil {
			return nil, ErrKeyData
		}
		k.Pub = append([]byte{}, b[45:78]...)
	}
	return k, nil
}

// Parse parses the base58 text form.
func Parse(s string, wantPrivate bool) (*Key, error) {
	b, err := base58.Decode(s)
	if err != nil {
		return nil, ErrB58
	}
	return ParseBytes(b, wantPrivate)
}

// ---------------------------------------------------------------- paths / BIP44

// ParsePath parses "m", "m/0'/1/2'" ...: first element m, then decimal numbers < 2^31 with an optional
// apostrophe meaning +2^31.
func ParsePath(p string) ([]uint32, error) {
	parts := strings.Split(p, "/")
	if parts[0] != "m" {
		return nil, errors.New("path must start with m")
	}
	var out []uint32
	for _, x := range parts[1:] {
		h := false
		if strings.HasSuffix(x, "'") {
			h = true
			x = x[:len(x)-1]
		}
		if x == "" {
			return nil, errors.New("empty path element")
		}
		v := uint64(0)
		for _, c := range x {
			// Go's ParseUint also accepts a leading '+'?  No: ParseUint rejects signs. Digits only.
			if c < '0' || c > '9' {
				return nil, errors.New("path element is not a number")
			}
			v = v*10 + uint64(c-'0')
			if v >= 1<<40 {
				return nil, errors.New("path element too large")
			}
		}
		if v >= uint64(Hardened) {
			return nil, errors.New("path element must be < 2^31")
		}
		i := uint32(v)
		if h {
			i += Hardened
		}
		out = append(out, i)
	}
	return out, nil
}

// Derive walks a list of child numbers from k with CKDpriv.
func (k *Key) Derive(path []uint32) (*Key, error) {
	cur := k
	for _, i := range path {
		var err error
		cur, err = cur.CKDpriv(i)
		if err != nil {
			return nil, err
		}
	}
	return cur, nil
}

// BIP44Path is m / 44' / coin' / account' / change / index.
func BIP44Path(coin, account, change, index uint32) ([]uint32, error) {
	if coin >= Hardened || account >= Hardened {
		return nil, errors.New("coin type and account must be < 2^31")
	}
	return []uint32{44 + Hardened, coin + Hardened, account + Hardened, change, index}, nil
}
