// Package codec holds the C21 side of the oracle that is NOT the reference encoder itself:
// the structural small-scope value alphabet built by reflection over a Go type (honouring the
// `enc:"..."` struct tags as documented in the encoder package comment), the combination
// strategy (full product, or all-pairs covering + small-scope full product when the product
// exceeds the cap), an independent "is a maxlen exceeded" walk, and the value equality used
// to compare two decoders (nil and empty slices identified, only encodable fields compared).
//
// It deliberately imports nothing from the repository.
package codec

import (
	"fmt"
	"math"
	"reflect"
	"strconv"
	"strings"
	"sync"
)

// Tag is the parsed `enc` struct tag.
type Tag struct {
	Skip      bool
	OmitEmpty bool
	MaxLen    int
}

// ParseTag follows the encoder package documentation: "-" skips the field, ",omitempty", ",maxlen=N".
func ParseTag(tag string) Tag {
	var t Tag
	if tag == "-" || strings.HasPrefix(tag, "-,") {
		t.Skip = true
		return t
	}
	parts := strings.Split(tag, ",")
	for _, p := range parts[1:] {
		switch {
		case p == "omitempty":
			t.OmitEmpty = true
		case strings.HasPrefix(p, "maxlen="):
			n, err := strconv.Atoi(strings.TrimPrefix(p, "maxlen="))
			if err != nil {
				panic("model/codec: bad maxlen in tag " + tag)
			}
			t.MaxLen = n
		}
	}
	return t
}

// Encodable reports whether a struct field takes part in the encoding.
func Encodable(f reflect.StructField) (Tag, bool) {
	if f.PkgPath != "" || f.Name == "_" {
		return Tag{}, false
	}
	t := ParseTag(f.Tag.Get("enc"))
	return t, !t.Skip
}

// FieldInfo is the cached description of one encodable struct field.
type FieldInfo struct {
	Index int
	Name  string
	Type  reflect.Type
	Tag   Tag
}

var fieldCache sync.Map // reflect.Type -> []FieldInfo

// Fields lists the encodable fields of struct type t (cached).
func Fields(t reflect.Type) []FieldInfo {
	if c, ok := fieldCache.Load(t); ok {
		return c.([]FieldInfo)
	}
	var out []FieldInfo
	for i := 0; i < t.NumField(); i++ {
		f := t.Field(i)
		if tag, ok := Encodable(f); ok {
			out = append(out, FieldInfo{Index: i, Name: f.Name, Type: f.Type, Tag: tag})
		}
	}
	fieldCache.Store(t, out)
	return out
}

// Alt is one alternative of a factor.
type Alt struct {
	Desc     string
	Fill     func(v reflect.Value) // v is addressable and holds the zero value
	Big      bool                  // contains a slice with >= 200 elements
	Boundary bool                  // a slice length at maxlen-1 / maxlen / maxlen+1 or at a byte-width boundary of the length prefix
}

// Factor is one independent choice point of a value: a leaf (integer, byte array, slice, string)
// reached from the root without crossing a slice.
type Factor struct {
	Path  string
	Index []int // field index chain from the root struct; nil when the root itself is the leaf
	Alts  []Alt
	// Variable marks slices and strings (the length-prefixed parts, where the codecs can differ most)
	Variable bool
}

// Patterns for values nested inside slices.
const (
	PZero  = 0 // Go zero value (nil slices)
	PMax   = 1 // integers max, bytes ff, nested slices one max element
	PCtr   = 2 // unsigned 1, signed min, byte arrays 01 02 03.., nested slices [ctr, max]
	PEmpty = 3 // zero value but every nested slice empty and non-nil
)

var patternName = [...]string{"zero", "max", "ctr", "empty"}

func unsupported(t reflect.Type) {
	panic(fmt.Sprintf("model/codec: unsupported kind %s (type %s) — extend the value alphabet", t.Kind(), t))
}

// FillPattern sets v (zero on entry) to pattern p. maxlen bounds nested slice lengths when > 0.
func FillPattern(v reflect.Value, p int, maxlen int) {
	t := v.Type()
	switch t.Kind() {
	case reflect.Uint8, reflect.Uint16, reflect.Uint32, reflect.Uint64:
		switch p {
		case PMax:
			v.SetUint(^uint64(0) >> (64 - uint(t.Bits())))
		case PCtr:
			v.SetUint(1)
		}
	case reflect.Int8, reflect.Int16, reflect.Int32, reflect.Int64:
		switch p {
		case PMax:
			v.SetInt(int64(^uint64(0) >> (65 - uint(t.Bits()))))
		case PCtr:
			v.SetInt(-1 << (uint(t.Bits()) - 1))
		}
	case reflect.Bool:
		if p == PMax || p == PCtr {
			v.SetBool(true)
		}
	case reflect.Float32, reflect.Float64:
		switch p {
		case PMax:
			if t.Kind() == reflect.Float32 {
				v.SetFloat(math.MaxFloat32)
			} else {
				v.SetFloat(math.MaxFloat64)
			}
		case PCtr:
			v.SetFloat(-1.5)
		}
	case reflect.String:
		switch p {
		case PMax:
			v.SetString("\xff")
		case PCtr:
			s := "ab"
			if maxlen > 0 && maxlen < 2 {
				s = s[:maxlen]
			}
			v.SetString(s)
		}
	case reflect.Array:
		if t.Elem().Kind() == reflect.Uint8 {
			if p != PMax && p != PCtr {
				return
			}
			if v.CanAddr() {
				b := v.Bytes()
				for i := range b {
					if p == PMax {
						b[i] = 0xff
					} else {
						b[i] = byte(i + 1)
					}
				}
				return
			}
			for i := 0; i < v.Len(); i++ {
				switch p {
				case PMax:
					v.Index(i).SetUint(0xff)
				case PCtr:
					v.Index(i).SetUint(uint64(byte(i + 1)))
				}
			}
			return
		}
		for i := 0; i < v.Len(); i++ {
			FillPattern(v.Index(i), p, 0)
		}
	case reflect.Slice:
		n := 0
		switch p {
		case PZero:
			return
		case PEmpty:
			v.Set(reflect.MakeSlice(t, 0, 0))
			return
		case PMax:
			n = 1
		case PCtr:
			n = 2
		}
		if maxlen > 0 && n > maxlen {
			n = maxlen
		}
		s := reflect.MakeSlice(t, n, n)
		if n >= 1 {
			FillPattern(s.Index(0), p, 0)
		}
		if n >= 2 {
			FillPattern(s.Index(1), PMax, 0)
		}
		v.Set(s)
	case reflect.Struct:
		for _, f := range Fields(t) {
			FillPattern(v.Field(f.Index), p, f.Tag.MaxLen)
		}
	default:
		unsupported(t)
	}
}

// FillCycling sets slice/string v to n elements, element i following pattern i mod 3
// (zero, max, ctr); see the sparse rule below for elements with nested slices.
func FillCycling(v reflect.Value, n int) {
	t := v.Type()
	if t.Kind() == reflect.String {
		b := make([]byte, n)
		for i := range b {
			b[i] = [3]byte{0, 0xff, 1}[i%3]
		}
		v.SetString(string(b))
		return
	}
	s := reflect.MakeSlice(t, n, n)
	if t.Elem().Kind() == reflect.Uint8 {
		b := s.Bytes()
		for i := range b {
			b[i] = [3]byte{0, 0xff, 1}[i%3]
		}
		v.Set(s)
		return
	}
	// elements that themselves contain slices: only the first six and the last element are non-zero
	// (a long slice is about the length boundary; element contents are explored by the short slices)
	sparse := HasSlice(t.Elem())
	if !sparse && n > 12 {
		// fixed-size elements: fill the first six, then double (element i == element i mod 3)
		for i := 0; i < 6; i++ {
			if p := i % 3; p != 0 {
				FillPattern(s.Index(i), p, 0)
			}
		}
		for k := 6; k < n; k *= 2 {
			reflect.Copy(s.Slice(k, n), s.Slice(0, k))
		}
		v.Set(s)
		return
	}
	for i := 0; i < n; i++ {
		if sparse && i >= 6 && i != n-1 {
			continue
		}
		if p := i % 3; p != 0 {
			FillPattern(s.Index(i), p, 0)
		} else if sparse && i == n-1 {
			FillPattern(s.Index(i), PMax, 0)
		}
	}
	v.Set(s)
}

// HasSlice reports whether values of t contain a variable-length part.
func HasSlice(t reflect.Type) bool {
	switch t.Kind() {
	case reflect.Slice, reflect.String:
		return true
	case reflect.Array:
		return HasSlice(t.Elem())
	case reflect.Struct:
		for i := 0; i < t.NumField(); i++ {
			if _, ok := Encodable(t.Field(i)); ok && HasSlice(t.Field(i).Type) {
				return true
			}
		}
	}
	return false
}

// HasMaxLen reports whether some encodable slice/string field reachable in t carries a maxlen tag.
func HasMaxLen(t reflect.Type) bool {
	switch t.Kind() {
	case reflect.Slice, reflect.Array:
		return HasMaxLen(t.Elem())
	case reflect.Struct:
		for i := 0; i < t.NumField(); i++ {
			tag, ok := Encodable(t.Field(i))
			if !ok {
				continue
			}
			k := t.Field(i).Type.Kind()
			if tag.MaxLen > 0 && (k == reflect.Slice || k == reflect.String) {
				return true
			}
			if HasMaxLen(t.Field(i).Type) {
				return true
			}
		}
	}
	return false
}

// HasOmitEmpty reports whether the root struct ends in an omitempty field.
func HasOmitEmpty(t reflect.Type) bool {
	if t.Kind() != reflect.Struct || t.NumField() == 0 {
		return false
	}
	tag, ok := Encodable(t.Field(t.NumField() - 1))
	return ok && tag.OmitEmpty
}

// FixedSize returns the encoded size of t when it has no variable-length part, else -1.
func FixedSize(t reflect.Type) int {
	switch t.Kind() {
	case reflect.Bool, reflect.Uint8, reflect.Int8:
		return 1
	case reflect.Uint16, reflect.Int16:
		return 2
	case reflect.Uint32, reflect.Int32, reflect.Float32:
		return 4
	case reflect.Uint64, reflect.Int64, reflect.Float64:
		return 8
	case reflect.Array:
		e := FixedSize(t.Elem())
		if e < 0 {
			return -1
		}
		return e * t.Len()
	case reflect.Struct:
		n := 0
		for i := 0; i < t.NumField(); i++ {
			if _, ok := Encodable(t.Field(i)); !ok {
				continue
			}
			e := FixedSize(t.Field(i).Type)
			if e < 0 {
				return -1
			}
			n += e
		}
		return n
	}
	return -1
}

// MinSize is a lower bound of the encoded size of a value of t (zero pattern).
func MinSize(t reflect.Type) int {
	switch t.Kind() {
	case reflect.Slice, reflect.String:
		return 4
	case reflect.Array:
		return MinSize(t.Elem()) * t.Len()
	case reflect.Struct:
		n := 0
		for i := 0; i < t.NumField(); i++ {
			if _, ok := Encodable(t.Field(i)); ok {
				n += MinSize(t.Field(i).Type)
			}
		}
		return n
	}
	if s := FixedSize(t); s >= 0 {
		return s
	}
	unsupported(t)
	return 0
}

// Reduced (set by the quick tier before Factors is called) keeps only the lengths 256 and 65536 for slices
// without a maxlen; otherwise 255, 256, 65535, 65536 are generated.
var Reduced bool

// MaxBigBytes bounds the (approximate, cycling-fill) encoded size of a boundary-length slice; larger ones are not generated.
const MaxBigBytes = 96 << 20

func boundaryLens(m int) []int {
	var out []int
	for _, b := range []int{m - 1, m, m + 1} {
		if b > 2 {
			out = append(out, b)
		}
	}
	return out
}

// nestedBoundaries lists, for element type t of a slice, the alternatives in which exactly one maxlen-tagged
// slice/string nested in t sits at maxlen-1 / maxlen / maxlen+1 (everything else zero, single-element
// slices along the path).  skipped collects boundary lengths left out because of MaxBigBytes.
func nestedBoundaries(t reflect.Type, skipped *[]string) []Alt {
	var out []Alt
	var walk func(t reflect.Type, nav func(root reflect.Value) reflect.Value, path string)
	walk = func(t reflect.Type, nav func(root reflect.Value) reflect.Value, path string) {
		switch t.Kind() {
		case reflect.Struct:
			for i := 0; i < t.NumField(); i++ {
				i := i
				f := t.Field(i)
				tag, ok := Encodable(f)
				if !ok {
					continue
				}
				fnav := func(root reflect.Value) reflect.Value { return nav(root).Field(i) }
				fpath := path + "." + f.Name
				k := f.Type.Kind()
				if (k == reflect.Slice || k == reflect.String) && tag.MaxLen > 0 {
					esz := 1
					if k == reflect.Slice {
						esz = MinSize(f.Type.Elem()) * 3
					}
					for _, b := range boundaryLens(tag.MaxLen) {
						b := b
						if b*esz > MaxBigBytes {
							*skipped = append(*skipped, fmt.Sprintf("%s len %d", fpath, b))
							continue
						}
						out = append(out, Alt{
							Desc:     fmt.Sprintf("{%s=len%d(cyc)}", strings.TrimPrefix(fpath, "."), b),
							Fill:     func(root reflect.Value) { FillCycling(fnav(root), b) },
							Big:      b >= 200,
							Boundary: true,
						})
					}
				}
				walk(f.Type, fnav, fpath)
			}
		case reflect.Slice:
			if t.Elem().Kind() == reflect.Uint8 {
				return
			}
			walk(t.Elem(), func(root reflect.Value) reflect.Value {
				s := nav(root)
				if s.Len() == 0 {
					s.Set(reflect.MakeSlice(s.Type(), 1, 1))
				}
				return s.Index(0)
			}, path+"[0]")
		case reflect.Array:
			if t.Len() > 0 && t.Elem().Kind() != reflect.Uint8 {
				walk(t.Elem(), func(root reflect.Value) reflect.Value { return nav(root).Index(0) }, path+"[0]")
			}
		}
	}
	walk(t, func(root reflect.Value) reflect.Value { return root }, "")
	return out
}

// leafAlts returns the alternatives of a top-level leaf of type t with tag tag.
func leafAlts(t reflect.Type, tag Tag, skipped *[]string) []Alt {
	set := func(desc string, f func(v reflect.Value)) Alt { return Alt{Desc: desc, Fill: f} }
	switch t.Kind() {
	case reflect.Uint8, reflect.Uint16, reflect.Uint32, reflect.Uint64:
		max := ^uint64(0) >> (64 - uint(t.Bits()))
		return []Alt{
			set("0", func(v reflect.Value) {}),
			set("1", func(v reflect.Value) { v.SetUint(1) }),
			set("max", func(v reflect.Value) { v.SetUint(max) }),
		}
	case reflect.Int8, reflect.Int16, reflect.Int32, reflect.Int64:
		max := int64(^uint64(0) >> (65 - uint(t.Bits())))
		min := int64(-1) << (uint(t.Bits()) - 1)
		return []Alt{
			set("0", func(v reflect.Value) {}),
			set("1", func(v reflect.Value) { v.SetInt(1) }),
			set("-1", func(v reflect.Value) { v.SetInt(-1) }),
			set("max", func(v reflect.Value) { v.SetInt(max) }),
			set("min", func(v reflect.Value) { v.SetInt(min) }),
		}
	case reflect.Bool:
		return []Alt{set("false", func(v reflect.Value) {}), set("true", func(v reflect.Value) { v.SetBool(true) })}
	case reflect.Float32, reflect.Float64, reflect.Array:
		return []Alt{
			set("zero", func(v reflect.Value) {}),
			set("max", func(v reflect.Value) { FillPattern(v, PMax, 0) }),
			set("ctr", func(v reflect.Value) { FillPattern(v, PCtr, 0) }),
		}
	case reflect.Slice, reflect.String:
		isStr := t.Kind() == reflect.String
		var et reflect.Type
		if isStr {
			et = reflect.TypeOf(byte(0))
		} else {
			et = t.Elem()
		}
		m := tag.MaxLen
		var out []Alt
		out = append(out, set("nil", func(v reflect.Value) {}))
		if !isStr {
			out = append(out, set("empty", func(v reflect.Value) { v.Set(reflect.MakeSlice(t, 0, 0)) }))
		}
		pats := []int{PZero, PMax, PCtr}
		mk := func(v reflect.Value, ps ...int) {
			if isStr {
				b := make([]byte, len(ps))
				for i, p := range ps {
					b[i] = [3]byte{0, 0xff, 1}[p]
				}
				v.SetString(string(b))
				return
			}
			s := reflect.MakeSlice(t, len(ps), len(ps))
			for i, p := range ps {
				FillPattern(s.Index(i), p, 0)
			}
			v.Set(s)
		}
		if m == 0 || m >= 1 {
			one := append([]int{}, pats...)
			if HasSlice(et) {
				one = append(one, PEmpty)
			}
			for _, p := range one {
				p := p
				out = append(out, set("["+patternName[p]+"]", func(v reflect.Value) { mk(v, p) }))
			}
		}
		for _, p := range pats {
			for _, q := range pats {
				p, q := p, q
				a := set("["+patternName[p]+","+patternName[q]+"]", func(v reflect.Value) { mk(v, p, q) })
				a.Boundary = m > 0 && m <= 3
				out = append(out, a)
			}
		}
		if !isStr {
			for _, nb := range nestedBoundaries(et, skipped) {
				nb := nb
				out = append(out, Alt{
					Desc: "[" + nb.Desc + "]",
					Fill: func(v reflect.Value) {
						s := reflect.MakeSlice(t, 1, 1)
						nb.Fill(s.Index(0))
						v.Set(s)
					},
					Big: nb.Big, Boundary: true,
				})
			}
		}
		var lens []int
		if m > 0 {
			lens = boundaryLens(m)
		} else {
			// no maxlen: the byte-width boundaries of the 4-byte length prefix
			lens = []int{256}
			if !Reduced {
				lens = []int{255, 256}
			}
			if fs := FixedSize(et); fs >= 0 && fs <= 128 {
				if !Reduced {
					lens = append(lens, 65535)
				}
				lens = append(lens, 65536)
			}
		}
		for _, b := range lens {
			b := b
			if b*MinSize(et)*3 > MaxBigBytes {
				*skipped = append(*skipped, fmt.Sprintf("len %d of %s", b, t))
				continue
			}
			out = append(out, Alt{Desc: fmt.Sprintf("len%d(cyc)", b), Fill: func(v reflect.Value) { FillCycling(v, b) }, Big: b >= 200, Boundary: true})
		}
		return out
	}
	unsupported(t)
	return nil
}

// Factors flattens type t into its independent top-level choice points.
func Factors(t reflect.Type) (fs []Factor, skipped []string) {
	var walk func(t reflect.Type, tag Tag, index []int, path string)
	walk = func(t reflect.Type, tag Tag, index []int, path string) {
		if t.Kind() == reflect.Struct {
			for i := 0; i < t.NumField(); i++ {
				f := t.Field(i)
				ftag, ok := Encodable(f)
				if !ok {
					continue
				}
				p := f.Name
				if path != "" {
					p = path + "." + f.Name
				}
				walk(f.Type, ftag, append(append([]int{}, index...), i), p)
			}
			return
		}
		if path == "" {
			path = "(root)"
		}
		fs = append(fs, Factor{Path: path, Index: index, Alts: leafAlts(t, tag, &skipped), Variable: t.Kind() == reflect.Slice || t.Kind() == reflect.String})
	}
	walk(t, Tag{}, nil, "")
	return fs, skipped
}

// Build fills root (addressable zero value) with row[i] of factor i.
func Build(root reflect.Value, fs []Factor, row []int) {
	for i, f := range fs {
		v := root
		if len(f.Index) > 0 {
			v = root.FieldByIndex(f.Index)
		}
		f.Alts[row[i]].Fill(v)
	}
}

// Describe renders a row as a stable human-readable recipe.
func Describe(fs []Factor, row []int) string {
	var b strings.Builder
	for i, f := range fs {
		if i > 0 {
			b.WriteByte(' ')
		}
		b.WriteString(f.Path)
		b.WriteByte('=')
		b.WriteString(f.Alts[row[i]].Desc)
	}
	return b.String()
}

// OverMax reports whether some maxlen-tagged slice/string in v is longer than its maxlen
// (independent of the encoders: a plain walk over the tags).
func OverMax(v reflect.Value) bool {
	switch v.Kind() {
	case reflect.Ptr, reflect.Interface:
		return OverMax(v.Elem())
	case reflect.Struct:
		for _, fi := range Fields(v.Type()) {
			f := v.Field(fi.Index)
			if k := f.Kind(); (k == reflect.Slice || k == reflect.String) && fi.Tag.MaxLen > 0 && f.Len() > fi.Tag.MaxLen {
				return true
			}
			if OverMax(f) {
				return true
			}
		}
	case reflect.Slice, reflect.Array:
		if k := v.Type().Elem().Kind(); k != reflect.Struct && k != reflect.Slice && k != reflect.Array {
			return false
		}
		for i := 0; i < v.Len(); i++ {
			if OverMax(v.Index(i)) {
				return true
			}
		}
	}
	return false
}

// Equal compares two values on their encodable fields only, identifying nil and empty slices
// (the equality of the repository's generated codec tests: cmpopts.EquateEmpty + IgnoreAllUnexported).
func Equal(a, b reflect.Value) bool {
	if a.Kind() == reflect.Ptr || a.Kind() == reflect.Interface {
		return Equal(a.Elem(), b)
	}
	if b.Kind() == reflect.Ptr || b.Kind() == reflect.Interface {
		return Equal(a, b.Elem())
	}
	if a.Type() != b.Type() {
		return false
	}
	switch a.Kind() {
	case reflect.Struct:
		for _, fi := range Fields(a.Type()) {
			if !Equal(a.Field(fi.Index), b.Field(fi.Index)) {
				return false
			}
		}
		return true
	case reflect.Slice:
		if a.Len() != b.Len() {
			return false
		}
		if a.Type().Elem().Kind() == reflect.Uint8 {
			return string(a.Bytes()) == string(b.Bytes())
		}
		for i := 0; i < a.Len(); i++ {
			if !Equal(a.Index(i), b.Index(i)) {
				return false
			}
		}
		return true
	case reflect.Array:
		if a.Type().Elem().Kind() == reflect.Uint8 {
			if a.CanAddr() && b.CanAddr() {
				return string(a.Bytes()) == string(b.Bytes())
			}
			for i := 0; i < a.Len(); i++ {
				if a.Index(i).Uint() != b.Index(i).Uint() {
					return false
				}
			}
			return true
		}
		for i := 0; i < a.Len(); i++ {
			if !Equal(a.Index(i), b.Index(i)) {
				return false
			}
		}
		return true
	case reflect.String:
		return a.String() == b.String()
	case reflect.Bool:
		return a.Bool() == b.Bool()
	case reflect.Int8, reflect.Int16, reflect.Int32, reflect.Int64:
		return a.Int() == b.Int()
	case reflect.Uint8, reflect.Uint16, reflect.Uint32, reflect.Uint64:
		return a.Uint() == b.Uint()
	case reflect.Float32, reflect.Float64:
		return math.Float64bits(a.Float()) == math.Float64bits(b.Float())
	}
	unsupported(a.Type())
	return false
}
