package codec

import (
	"sort"
)

// Plan says how the rows of one type were combined.
type Plan struct {
	Factors          int    `json:"factors"`
	FullProduct      string `json:"full_product"` // size of the full product (decimal, may exceed 2^63: "overflow")
	Mode             string `json:"mode"`         // "full" | "pairwise+small-scope"
	Rows             int    `json:"rows"`
	PairwiseRows     int    `json:"pairwise_rows,omitempty"`
	BigPairing       string `json:"pairing_of_big_alternatives,omitempty"`
	SmallScopeLimits []int  `json:"small_scope_first_alternatives_per_factor,omitempty"`
	SmallRows        int    `json:"small_scope_rows,omitempty"`
	Cap              int    `json:"cap"`
}

func product(sizes []int, limit int) (int, bool) {
	p := 1
	for _, s := range sizes {
		if limit > 0 && s > limit {
			s = limit
		}
		if s == 0 {
			return 0, true
		}
		if p > (1<<62)/s {
			return 0, false
		}
		p *= s
	}
	return p, true
}

func fullRows(sizes []int, limit int) [][]int {
	eff := make([]int, len(sizes))
	for i, s := range sizes {
		eff[i] = s
		if limit > 0 && s > limit {
			eff[i] = limit
		}
	}
	return fullRowsLim(eff)
}

func fullRowsLim(eff []int) [][]int {
	sizes := eff
	var out [][]int
	row := make([]int, len(sizes))
	for {
		out = append(out, append([]int{}, row...))
		i := len(row) - 1
		for i >= 0 {
			row[i]++
			if row[i] < eff[i] {
				break
			}
			row[i] = 0
			i--
		}
		if i < 0 {
			return out
		}
	}
}

// BaseAlts is the number of leading alternatives of every factor that a big alternative is still paired with
// when the reduced pairing is used.
const BaseAlts = 3

// Pairwise returns a deterministic all-pairs covering array (greedy, one row at a time):
// for every two factors i<j and every (a,b) some row has row[i]=a and row[j]=b.
// big[i][a] marks expensive alternatives (may be nil): they are never used as mere filler, and with reducedBig
// a big alternative only has to meet the first BaseAlts alternatives and the big alternatives of every other
// factor (all pairs among non-big alternatives are always required).
func Pairwise(sizes []int, big [][]bool, reducedBig bool) [][]int {
	isBig := func(i, a int) bool { return big != nil && big[i][a] }
	k := len(sizes)
	if k == 0 {
		return [][]int{{}}
	}
	if k == 1 {
		out := make([][]int, sizes[0])
		for a := range out {
			out[a] = []int{a}
		}
		return out
	}
	// uncovered[i][j][a*sizes[j]+b] for i<j
	unc := make([][][]bool, k)
	remaining := 0
	for i := 0; i < k; i++ {
		unc[i] = make([][]bool, k)
		for j := i + 1; j < k; j++ {
			unc[i][j] = make([]bool, sizes[i]*sizes[j])
			for a := 0; a < sizes[i]; a++ {
				for b := 0; b < sizes[j]; b++ {
					if reducedBig && ((isBig(i, a) && !isBig(j, b) && b >= BaseAlts) || (isBig(j, b) && !isBig(i, a) && a >= BaseAlts)) {
						continue
					}
					unc[i][j][a*sizes[j]+b] = true
					remaining++
				}
			}
		}
	}
	isUnc := func(i, a, j, b int) bool {
		if i > j {
			i, a, j, b = j, b, i, a
		}
		return unc[i][j][a*sizes[j]+b]
	}
	// factor order: largest first (deterministic)
	order := make([]int, k)
	for i := range order {
		order[i] = i
	}
	sort.SliceStable(order, func(x, y int) bool { return sizes[order[x]] > sizes[order[y]] })
	var rows [][]int
	for remaining > 0 {
		row := make([]int, k)
		for i := range row {
			row[i] = -1
		}
		// seed with the first uncovered pair in (order) scan
		seeded := false
		for x := 0; x < k && !seeded; x++ {
			for y := x + 1; y < k && !seeded; y++ {
				i, j := order[x], order[y]
				if i > j {
					i, j = j, i
				}
				for idx, u := range unc[i][j] {
					if u {
						row[i], row[j] = idx/sizes[j], idx%sizes[j]
						seeded = true
						break
					}
				}
			}
		}
		for _, f := range order {
			if row[f] >= 0 {
				continue
			}
			best, bestGain := 0, -1
			for a := 0; a < sizes[f]; a++ {
				gain := 0
				for g := 0; g < k; g++ {
					if g != f && row[g] >= 0 && isUnc(f, a, g, row[g]) {
						gain++
					}
				}
				if gain > bestGain {
					best, bestGain = a, gain
				}
			}
			if bestGain == 0 {
				// nothing new with the fixed part: prefer the alternative with most uncovered pairs left overall
				bestLeft := -1
				best = 0
				for a := 0; a < sizes[f]; a++ {
					if isBig(f, a) {
						continue
					}
					left := 0
					for g := 0; g < k; g++ {
						if g == f {
							continue
						}
						for b := 0; b < sizes[g]; b++ {
							if isUnc(f, a, g, b) {
								left++
							}
						}
					}
					if left > bestLeft {
						best, bestLeft = a, left
					}
				}
			}
			row[f] = best
		}
		for i := 0; i < k; i++ {
			for j := i + 1; j < k; j++ {
				idx := row[i]*sizes[j] + row[j]
				if unc[i][j][idx] {
					unc[i][j][idx] = false
					remaining--
				}
			}
		}
		rows = append(rows, row)
	}
	return rows
}

// Enumerate returns the rows (one alternative index per factor) explored for a type:
// the full product when it has at most cap rows; otherwise an all-pairs covering array plus
// the full product over the first L alternatives of every factor, L maximal within the cap.
func Enumerate(fs []Factor, cap int, reducedBig bool) ([][]int, Plan) {
	sizes := make([]int, len(fs))
	for i, f := range fs {
		sizes[i] = len(f.Alts)
	}
	plan := Plan{Factors: len(fs), Cap: cap}
	total, ok := product(sizes, 0)
	if ok {
		plan.FullProduct = itoa(total)
	} else {
		plan.FullProduct = "overflow(>2^62)"
	}
	if ok && total <= cap {
		rows := fullRows(sizes, 0)
		plan.Mode, plan.Rows = "full", len(rows)
		return rows, plan
	}
	big := make([][]bool, len(fs))
	for i, f := range fs {
		big[i] = make([]bool, len(f.Alts))
		for a, alt := range f.Alts {
			big[i][a] = alt.Big
		}
	}
	pw := Pairwise(sizes, big, reducedBig)
	plan.Mode = "pairwise+small-scope"
	if reducedBig {
		plan.BigPairing = "alternatives with slices of >= 200 elements are paired with the first 3 alternatives and with the big alternatives of every other factor only"
	} else {
		plan.BigPairing = "all pairs"
	}
	plan.PairwiseRows = len(pw)
	// small scope: the full product over the first lim[i] alternatives of factor i; limits grow round-robin
	// (first over the variable-length factors, then over the scalar ones; largest factors first) while the
	// product fits the remaining budget; alternatives holding big slices
	// (they come last in every factor) stay out of the small scope and are covered by the all-pairs rows only.
	nb := make([]int, len(fs))
	for i, f := range fs {
		for nb[i] < len(f.Alts) && !f.Alts[nb[i]].Big {
			nb[i]++
		}
		if nb[i] == 0 {
			nb[i] = 1
		}
	}
	lim := make([]int, len(fs))
	for i := range lim {
		lim[i] = 1
	}
	prod := func() int {
		p := 1
		for _, l := range lim {
			if p > (1<<62)/l {
				return 1 << 62
			}
			p *= l
		}
		return p
	}
	// stage 1: variable-length factors (slices, strings) only; stage 2: the scalar factors
	for stage := 1; stage <= 2; stage++ {
		var order []int
		for i, f := range fs {
			if f.Variable == (stage == 1) {
				order = append(order, i)
			}
		}
		sort.SliceStable(order, func(x, y int) bool { return nb[order[x]] > nb[order[y]] })
		for changed := true; changed; {
			changed = false
			for _, i := range order {
				if lim[i] >= nb[i] {
					continue
				}
				lim[i]++
				if prod() > cap-len(pw) {
					lim[i]--
					continue
				}
				changed = true
			}
		}
	}
	small := fullRowsLim(lim)
	plan.SmallScopeLimits, plan.SmallRows = lim, len(small)
	seen := map[string]bool{}
	var rows [][]int
	key := func(r []int) string {
		b := make([]byte, 0, len(r)*2)
		for _, x := range r {
			b = append(b, byte(x), byte(x>>8))
		}
		return string(b)
	}
	for _, r := range append(pw, small...) {
		if k := key(r); !seen[k] {
			seen[k] = true
			rows = append(rows, r)
		}
	}
	plan.Rows = len(rows)
	return rows, plan
}

func itoa(n int) string {
	if n == 0 {
		return "0"
	}
	var b []byte
	for n > 0 {
		b = append([]byte{byte('0' + n%10)}, b...)
		n /= 10
	}
	return string(b)
}
