package codec

import (
	"reflect"
	"testing"
)

func covered(rows [][]int, i, a, j, b int) bool {
	for _, r := range rows {
		if r[i] == a && r[j] == b {
			return true
		}
	}
	return false
}

func TestPairwiseCoversAllPairs(t *testing.T) {
	for _, sizes := range [][]int{{3, 3, 3, 17, 17, 17}, {3, 3, 3, 3, 3, 3, 3, 27, 3}, {5}, {2, 9}, {3, 3, 3, 17, 17, 17, 5, 5, 5, 5}} {
		rows := Pairwise(sizes, nil, false)
		for i := range sizes {
			for j := i + 1; j < len(sizes); j++ {
				for a := 0; a < sizes[i]; a++ {
					for b := 0; b < sizes[j]; b++ {
						if !covered(rows, i, a, j, b) {
							t.Fatalf("sizes %v: pair (%d=%d,%d=%d) not covered by %d rows", sizes, i, a, j, b, len(rows))
						}
					}
				}
			}
		}
		t.Logf("sizes %v: %d rows", sizes, len(rows))
	}
}

func TestPairwiseReducedBig(t *testing.T) {
	sizes := []int{3, 17, 17}
	big := [][]bool{make([]bool, 3), make([]bool, 17), make([]bool, 17)}
	for a := 14; a < 17; a++ {
		big[1][a], big[2][a] = true, true
	}
	rows := Pairwise(sizes, big, true)
	nbig := 0
	for _, r := range rows {
		if big[1][r[1]] || big[2][r[2]] {
			nbig++
		}
	}
	for i := range sizes {
		for j := i + 1; j < len(sizes); j++ {
			for a := 0; a < sizes[i]; a++ {
				for b := 0; b < sizes[j]; b++ {
					need := !((big[i][a] && !big[j][b] && b >= BaseAlts) || (big[j][b] && !big[i][a] && a >= BaseAlts))
					if need && !covered(rows, i, a, j, b) {
						t.Fatalf("required pair (%d=%d,%d=%d) not covered", i, a, j, b)
					}
				}
			}
		}
	}
	full := Pairwise(sizes, big, false)
	nfull := 0
	for _, r := range full {
		if big[1][r[1]] || big[2][r[2]] {
			nfull++
		}
	}
	if nbig >= nfull {
		t.Fatalf("reduced pairing uses %d big rows, full pairing %d", nbig, nfull)
	}
	t.Logf("rows with a big alternative: reduced %d, full %d", nbig, nfull)
}

type inner struct {
	A  []byte `enc:",maxlen=4"`
	B  uint16
	no int
}
type outer struct {
	X    uint8
	In   []inner `enc:",maxlen=3"`
	Skip string  `enc:"-"`
	Tail []byte  `enc:",omitempty"`
}

func TestFactorsAndModelHelpers(t *testing.T) {
	typ := reflect.TypeOf(outer{})
	fs, skipped := Factors(typ)
	if len(skipped) != 0 || len(fs) != 3 {
		t.Fatalf("factors %d skipped %v", len(fs), skipped)
	}
	if !HasMaxLen(typ) || !HasOmitEmpty(typ) || !HasSlice(typ) {
		t.Fatal("tag helpers")
	}
	rows, plan := Enumerate(fs, 100000, false)
	if plan.Mode != "full" {
		t.Fatalf("plan %+v", plan)
	}
	over, seenNestedBoundary := 0, false
	for _, r := range rows {
		v := reflect.New(typ).Elem()
		Build(v, fs, r)
		o := v.Interface().(outer)
		want := len(o.In) > 3
		for _, e := range o.In {
			if len(e.A) > 4 {
				want = true
			}
			if len(e.A) == 5 {
				seenNestedBoundary = true
			}
		}
		if OverMax(v) != want {
			t.Fatalf("OverMax(%s) = %v", Describe(fs, r), OverMax(v))
		}
		if want {
			over++
		}
		w := reflect.New(typ).Elem()
		Build(w, fs, r)
		if !Equal(v, w) {
			t.Fatalf("Equal not reflexive on %s", Describe(fs, r))
		}
	}
	if over == 0 || !seenNestedBoundary {
		t.Fatalf("no over-maxlen value generated (over=%d nested=%v)", over, seenNestedBoundary)
	}
	a, b := outer{In: []inner{}}, outer{}
	if !Equal(reflect.ValueOf(&a), reflect.ValueOf(&b)) {
		t.Fatal("nil and empty slices must be identified")
	}
	a.Skip, a.In = "x", nil
	if !Equal(reflect.ValueOf(a), reflect.ValueOf(b)) {
		t.Fatal("fields tagged - must be ignored")
	}
	a.X = 1
	if Equal(reflect.ValueOf(a), reflect.ValueOf(b)) {
		t.Fatal("difference not seen")
	}
}
