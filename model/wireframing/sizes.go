package wireframing

// Encoded sizes of the items carried by the list messages, from the wire format description.

const (
	HashSize     = 32
	PeerSize     = 4 + 2     // IPAddr{IP uint32, Port uint16}
	ListMsgEmpty = 4 + 4 + 4 // length prefix + message id + element count: a list message with no items, as written to the socket
)

// TxnSize is the encoded size of a coin.Transaction with the given numbers of signatures, inputs, outputs.
func TxnSize(sigs, ins, outs int) int {
	return 4 + 1 + 32 + (4 + 65*sigs) + (4 + 32*ins) + (4 + (1+20+8+8)*outs)
}

// BlockSize is the encoded size of a coin.SignedBlock whose transactions have the given encoded sizes.
func BlockSize(txnSizes []int) int {
	n := (4 + 8 + 8 + 8) + 3*32 + 4 + 65
	for _, s := range txnSizes {
		n += s
	}
	return n
}

// LongestPrefix returns the largest k <= len(sizes), k <= itemCap, such that a list message with the first k items,
// as written to the socket (ListMsgEmpty + the items), is at most max bytes long; -1 if not even the empty
// message fits.
func LongestPrefix(sizes []int, itemCap, max int) int {
	total := ListMsgEmpty
	if total > max {
		return -1
	}
	k := 0
	for k < len(sizes) && k < itemCap && total+sizes[k] <= max {
		total += sizes[k]
		k++
	}
	return k
}
