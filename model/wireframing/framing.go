// Package wireframing is the reference model of the skycoin peer wire format used by C22 (and as a measuring
// stick by C23): a length-prefixed framer plus a schema-driven body parser for the registered messages.
// It is written from the wire format description (struct declarations and `enc` tags), NOT from gnet's
// decodeData/convertToMessage or the generated *_skyencoder.go decoders, and imports nothing of skycoin.
package wireframing

import "encoding/binary"

// ---- body schemas -------------------------------------------------------------------------------------

type Kind int

const (
	Fixed  Kind = iota // N raw bytes (integers, hashes, signatures, addresses: the framing model does not interpret them)
	Slice              // uint32 count, then count × Elem; count ≤ MaxLen when MaxLen > 0
	Struct             // Fields in order
)

// T describes the encoding of one value.
type T struct {
	K         Kind
	N         int  // Fixed: byte count
	Elem      *T   // Slice
	MaxLen    int  // Slice: 0 = unlimited
	OmitEmpty bool // Slice as LAST field of a message: absent when no bytes remain; an empty slice is never written
	Fields    []T  // Struct
}

func fixed(n int) T        { return T{K: Fixed, N: n} }
func slice(e T, max int) T { return T{K: Slice, Elem: &e, MaxLen: max} }
func structOf(f ...T) T    { return T{K: Struct, Fields: f} }
func omitEmptyBytes() T    { e := fixed(1); return T{K: Slice, Elem: &e, OmitEmpty: true} }

var (
	hash32 = fixed(32)
	sig65  = fixed(65)
	// coin.TransactionOutput: Address{Version uint8, Key [20]byte}, Coins uint64, Hours uint64
	txOut = fixed(1 + 20 + 8 + 8)
	// coin.Transaction: Length uint32, Type uint8, InnerHash, Sigs, In, Out (each maxlen=65535)
	txn = structOf(fixed(4), fixed(1), hash32, slice(sig65, 65535), slice(hash32, 65535), slice(txOut, 65535))
	// coin.SignedBlock: Block{Head{Version u32, Time u64, BkSeq u64, Fee u64, PrevHash, BodyHash, UxHash}, Body{Transactions maxlen=65535}}, Sig
	signedBlock = structOf(fixed(4+8+8+8), hash32, hash32, hash32, slice(txn, 65535), sig65)
)

// Messages is the registered daemon message set: 4-byte id -> body schema.
var Messages = map[string]T{
	"INTR": structOf(fixed(4), fixed(2), fixed(4), omitEmptyBytes()), // Mirror u32, ListenPort u16, ProtocolVersion i32, Extra []byte omitempty
	"GETP": structOf(),
	"GIVP": structOf(slice(fixed(4+2), 512)), // []IPAddr{IP u32, Port u16} maxlen=512
	"PING": structOf(),
	"PONG": structOf(),
	"GETB": structOf(fixed(8), fixed(8)),
	"GIVB": structOf(slice(signedBlock, 128)),
	"ANNB": structOf(fixed(8)),
	"GETT": structOf(slice(hash32, 256)),
	"GIVT": structOf(slice(txn, 256)),
	"ANNT": structOf(slice(hash32, 256)),
	"DISC": structOf(fixed(2), slice(fixed(1), 0)), // ReasonCode u16, Reserved []byte
}

// parse consumes one value of type t from b. It returns the canonical re-encoding of the value, the number
// of bytes consumed, and ok=false if b is too short or a count exceeds its limit.
func parse(t T, b []byte) (canon []byte, used int, ok bool) {
	switch t.K {
	case Fixed:
		if len(b) < t.N {
			return nil, 0, false
		}
		return b[:t.N], t.N, true
	case Struct:
		for _, f := range t.Fields {
			c, u, ok := parse(f, b[used:])
			if !ok {
				return nil, 0, false
			}
			canon = append(canon, c...)
			used += u
		}
		return canon, used, true
	case Slice:
		if t.OmitEmpty && len(b) == 0 {
			return nil, 0, true
		}
		if len(b) < 4 {
			return nil, 0, false
		}
		n := int(binary.LittleEndian.Uint32(b))
		used = 4
		if t.MaxLen > 0 && n > t.MaxLen {
			return nil, 0, false
		}
		if n > len(b)-4 { // every element takes at least one byte
			return nil, 0, false
		}
		for i := 0; i < n; i++ {
			c, u, ok := parse(*t.Elem, b[used:])
			if !ok {
				return nil, 0, false
			}
			canon = append(canon, c...)
			used += u
		}
		if t.OmitEmpty && n == 0 {
			return nil, used, true // an explicit zero count is legal on the wire but is not re-encoded
		}
		return append(append([]byte{}, b[:4]...), canon...), used, true
	}
	return nil, 0, false
}

// ---- framing ------------------------------------------------------------------------------------------

// Reason classes (why the receiver must drop the connection).
const (
	None          = ""               // no protocol error in the stream (it just ends)
	InvalidLength = "invalid-length" // length prefix < 4 or > max
	UnknownID     = "unknown-id"
	Malformed     = "malformed-body" // body too short for its type / a count above its limit
	Trailing      = "trailing-bytes" // body decodes but bytes are left over
)

// Msg is one delivered message: its id and its canonical re-encoding as a whole frame (prefix, id, body).
type Msg struct {
	ID    string
	Canon []byte
}

// Result is the prediction for a whole stream, independent of how it is split into reads.
type Result struct {
	Frames    [][]byte // complete frames (id+body, without length prefix) before the first bad length prefix
	Delivered []Msg    // messages of the frames before the first defective frame, in order
	Reason    string   // class of the FIRST defect in stream order (None if there is none)
	// FramingReason is InvalidLength if a bad length prefix follows the complete frames (it may come after a
	// body defect; a pipelined receiver may report either).
	FramingReason string
	// BadPrefixAtEnd: the bad length prefix is the last 4 bytes of the stream (nothing follows it).
	BadPrefixAtEnd bool
	// Tail is the number of bytes of an incomplete last frame (0 = the stream ends on a frame boundary).
	Tail int
}

// Frame predicts what a receiver does with stream when frames longer than max are refused.
func Frame(stream []byte, max int) Result {
	var r Result
	bodyDefect := false
	for len(stream) >= 4 {
		n := int(binary.LittleEndian.Uint32(stream))
		if n < 4 || n > max {
			r.FramingReason = InvalidLength
			r.BadPrefixAtEnd = len(stream) == 4
			if !bodyDefect {
				r.Reason = InvalidLength
			}
			return r
		}
		if len(stream)-4 < n {
			break // incomplete frame: the stream ended in the middle of a message
		}
		frame := stream[4 : 4+n]
		stream = stream[4+n:]
		r.Frames = append(r.Frames, frame)
		if bodyDefect {
			continue
		}
		id := string(frame[:4])
		t, known := Messages[id]
		if !known {
			r.Reason, bodyDefect = UnknownID, true
			continue
		}
		canon, used, ok := parse(t, frame[4:])
		switch {
		case !ok:
			r.Reason, bodyDefect = Malformed, true
		case used != len(frame)-4:
			r.Reason, bodyDefect = Trailing, true
		default:
			out := make([]byte, 4, 8+len(canon))
			binary.LittleEndian.PutUint32(out, uint32(4+len(canon)))
			out = append(append(out, id...), canon...)
			r.Delivered = append(r.Delivered, Msg{ID: id, Canon: out})
		}
	}
	r.Tail = len(stream)
	return r
}
