// Package wsvcfs is a tiny reference model of a directory tree: just enough POSIX semantics to
// re-apply a recorded operation log (verif/shim/vos) to an initial image, completely or up to a
// crash point.  It knows nothing about skycoin.
//
// Crash model (ordered writes): every operation that was issued before the crash is durable, in
// order; the operation in flight is either absent or — for a data write — present up to an arbitrary
// byte.  No reordering, no lost renames, no bit rot.
package wsvcfs

import (
	"crypto/sha256"
	"encoding/hex"
	"fmt"
	"os"
	"path/filepath"
	"sort"
	"strings"

	"verif/shim/vos"
)

// Image is a directory tree: relative path -> content for regular files; Dirs holds sub-directories.
type Image struct {
	Files map[string][]byte
	Dirs  map[string]bool
}

func New() *Image { return &Image{Files: map[string][]byte{}, Dirs: map[string]bool{}} }

func (im *Image) Clone() *Image {
	c := New()
	for k, v := range im.Files {
		c.Files[k] = append([]byte(nil), v...)
	}
	for k := range im.Dirs {
		c.Dirs[k] = true
	}
	return c
}

// Read loads the tree below dir.
func Read(dir string) (*Image, error) {
	im := New()
	err := filepath.Walk(dir, func(p string, info os.FileInfo, err error) error {
		if err != nil {
			return err
		}
		rel, _ := filepath.Rel(dir, p)
		if rel == "." {
			return nil
		}
		if info.IsDir() {
			im.Dirs[rel] = true
			return nil
		}
		b, err := os.ReadFile(p)
		if err != nil {
			return err
		}
		im.Files[rel] = b
		return nil
	})
	return im, err
}

// Write materialises the image below dir (which is created; must not exist or be empty).
func (im *Image) Write(dir string) error {
	if err := os.MkdirAll(dir, 0o700); err != nil {
		return err
	}
	for d := range im.Dirs {
		if err := os.MkdirAll(filepath.Join(dir, d), 0o700); err != nil {
			return err
		}
	}
	for f, b := range im.Files {
		p := filepath.Join(dir, f)
		if err := os.MkdirAll(filepath.Dir(p), 0o700); err != nil {
			return err
		}
		if err := os.WriteFile(p, b, 0o600); err != nil {
			return err
		}
	}
	return nil
}

func (im *Image) Names() []string {
	var ns []string
	for k := range im.Files {
		ns = append(ns, k)
	}
	sort.Strings(ns)
	return ns
}

// Hash identifies the image content (file names, bytes, directories).
func (im *Image) Hash() string {
	h := sha256.New()
	for _, n := range im.Names() {
		fmt.Fprintf(h, "F %q %d\n", n, len(im.Files[n]))
		h.Write(im.Files[n])
	}
	var ds []string
	for d := range im.Dirs {
		ds = append(ds, d)
	}
	sort.Strings(ds)
	for _, d := range ds {
		fmt.Fprintf(h, "D %q\n", d)
	}
	return hex.EncodeToString(h.Sum(nil)[:16])
}

func (im *Image) Equal(o *Image) bool { return im.Hash() == o.Hash() }

// Diff describes the first difference (for diagnostics).
func (im *Image) Diff(o *Image) string {
	for _, n := range im.Names() {
		b, ok := o.Files[n]
		if !ok {
			return fmt.Sprintf("file %q only in first", n)
		}
		if string(b) != string(im.Files[n]) {
			return fmt.Sprintf("file %q differs (%d vs %d bytes)", n, len(im.Files[n]), len(b))
		}
	}
	for _, n := range o.Names() {
		if _, ok := im.Files[n]; !ok {
			return fmt.Sprintf("file %q only in second", n)
		}
	}
	for d := range im.Dirs {
		if !o.Dirs[d] {
			return fmt.Sprintf("dir %q only in first", d)
		}
	}
	for d := range o.Dirs {
		if !im.Dirs[d] {
			return fmt.Sprintf("dir %q only in second", d)
		}
	}
	return ""
}

// Replayer applies a log to an image.
type Replayer struct {
	Im      *Image
	handles map[int]string // open handle -> path
	// LastTouch[path] = index of the last applied operation that changed the bytes / existence of path
	LastTouch map[string]int
}

func NewReplayer(initial *Image) *Replayer {
	return &Replayer{Im: initial.Clone(), handles: map[int]string{}, LastTouch: map[string]int{}}
}

// Apply applies operation number idx completely.  partial >= 0 applies only the first `partial` bytes of a
// data write (the crash hit in the middle of it).  An error means the log uses something the model does
// not understand — a harness problem, never a verdict.
func (r *Replayer) Apply(idx int, op vos.Op, partial int) error {
	if op.Err != "" {
		return nil // failed operations have no effect
	}
	im := r.Im
	switch op.Kind {
	case "open":
		_, exists := im.Files[op.Path]
		if !exists {
			if op.Flags&vos.O_CREATE == 0 {
				return fmt.Errorf("op %d: open of missing %q without O_CREATE succeeded?", idx, op.Path)
			}
			if d := filepath.Dir(op.Path); d != "." && !im.Dirs[d] {
				return fmt.Errorf("op %d: open %q in missing directory", idx, op.Path)
			}
			im.Files[op.Path] = []byte{}
			r.LastTouch[op.Path] = idx
		} else {
			if op.Flags&vos.O_EXCL != 0 && op.Flags&vos.O_CREATE != 0 {
				return fmt.Errorf("op %d: O_EXCL open of existing %q succeeded?", idx, op.Path)
			}
			if op.Flags&vos.O_TRUNC != 0 {
				if len(im.Files[op.Path]) != 0 {
					r.LastTouch[op.Path] = idx
				}
				im.Files[op.Path] = []byte{}
			}
		}
		r.handles[op.Handle] = op.Path
	case "write":
		p, ok := r.handles[op.Handle]
		if !ok {
			return fmt.Errorf("op %d: write through unknown handle %d", idx, op.Handle)
		}
		cur, ok := im.Files[p]
		if !ok {
			return fmt.Errorf("op %d: write to unlinked file %q (not modelled)", idx, p)
		}
		data := op.Data
		if partial >= 0 && partial < len(data) {
			data = data[:partial]
		}
		off := op.Off
		if off < 0 {
			off = int64(len(cur))
		}
		end := off + int64(len(data))
		if int64(len(cur)) < end {
			cur = append(cur, make([]byte, end-int64(len(cur)))...)
		}
		copy(cur[off:end], data)
		im.Files[p] = cur
		if len(data) > 0 {
			r.LastTouch[p] = idx
		}
	case "truncate":
		p := op.Path
		if op.Handle != 0 {
			p = r.handles[op.Handle]
		}
		cur, ok := im.Files[p]
		if !ok {
			return fmt.Errorf("op %d: truncate of missing %q", idx, p)
		}
		if int64(len(cur)) > op.Off {
			cur = cur[:op.Off]
		} else {
			cur = append(cur, make([]byte, op.Off-int64(len(cur)))...)
		}
		im.Files[p] = cur
		r.LastTouch[p] = idx
	case "sync":
		// ordered-write model: nothing to do
	case "close":
		delete(r.handles, op.Handle)
	case "rename":
		for _, hp := range r.handles {
			if hp == op.Path || hp == op.Path2 {
				return fmt.Errorf("op %d: rename of an open file %q (not modelled)", idx, hp)
			}
		}
		if b, ok := im.Files[op.Path]; ok {
			im.Files[op.Path2] = b
			delete(im.Files, op.Path)
			r.LastTouch[op.Path2] = idx
			r.LastTouch[op.Path] = idx
		} else if im.Dirs[op.Path] {
			return fmt.Errorf("op %d: directory rename (not modelled)", idx)
		} else {
			return fmt.Errorf("op %d: rename of missing %q succeeded?", idx, op.Path)
		}
	case "remove":
		if _, ok := im.Files[op.Path]; ok {
			delete(im.Files, op.Path)
			r.LastTouch[op.Path] = idx
		} else if im.Dirs[op.Path] {
			delete(im.Dirs, op.Path)
		} else {
			return fmt.Errorf("op %d: remove of missing %q succeeded?", idx, op.Path)
		}
	case "removeall":
		for f := range im.Files {
			if f == op.Path || strings.HasPrefix(f, op.Path+"/") {
				delete(im.Files, f)
				r.LastTouch[f] = idx
			}
		}
		for d := range im.Dirs {
			if d == op.Path || strings.HasPrefix(d, op.Path+"/") {
				delete(im.Dirs, d)
			}
		}
	case "mkdir", "mkdirall":
		if op.Path != "." {
			p := op.Path
			for p != "." && p != "/" {
				im.Dirs[p] = true
				if op.Kind == "mkdir" {
					break
				}
				p = filepath.Dir(p)
			}
		}
	default:
		return fmt.Errorf("op %d: kind %q not modelled", idx, op.Kind)
	}
	return nil
}
