package secp

import (
	"crypto/sha256"
	"math/big"
)

// The skycoin deterministic key sequence, transcribed from the doc comments of
// src/cipher/secp256k1-go/secp256k1.go (not from its statements):
//
//   step(seed32):      repeat seed = SHA256(seed) until seed is a valid secret key (1..n-1);
//                      seckey = seed, pubkey = seckey*G (compressed)
//   Secp256k1Hash(s):  "double SHA256, salted with ECDH operation in curve":
//                      h = SHA256(s); seckey = step(h).sec; pubkey = step(SHA256(h)).pub;
//                      out = SHA256(h || compress(seckey*pubkey))
//   Iterator(seedIn):  "Returns SHA256, PubKey, SecKey; feeds SHA256 back into function to generate sequence":
//                      seed1 = Secp256k1Hash(seedIn); (pub, sec) = step(SHA256(seedIn || seed1)); return seed1, pub, sec
//   Sequence(seed, n): seed_0 = seed; (seed_{i+1}, _, sec_i) = Iterator(seed_i)

func sha(b []byte) []byte { h := sha256.Sum256(b); return h[:] }

// DetStep is step() above.
func DetStep(seed []byte) (pub, sec []byte) {
	if len(seed) != 32 {
		panic("DetStep: seed must be 32 bytes")
	}
	for {
		seed = sha(seed)
		d := new(big.Int).SetBytes(seed)
		if ValidScalar(d) {
			return Compress(BaseMul(d)), append([]byte{}, seed...)
		}
	}
}

// DetHash is Secp256k1Hash.
func DetHash(seed []byte) []byte {
	h := sha(seed)
	_, sec := DetStep(h)
	pub, _ := DetStep(sha(h))
	Q, err := ParseCompressed(pub)
	if err != nil {
		panic(err)
	}
	S, ok := ECDH(Q, new(big.Int).SetBytes(sec))
	if !ok {
		panic("DetHash: ECDH failed")
	}
	return sha(append(append([]byte{}, h...), Compress(S)...))
}

// DetIterator is DeterministicKeyPairIterator.
func DetIterator(seedIn []byte) (next, pub, sec []byte) {
	seed1 := DetHash(seedIn)
	pub, sec = DetStep(sha(append(append([]byte{}, seedIn...), seed1...)))
	return seed1, pub, sec
}

// DetSequence returns the first n secret keys, their public keys, and the seed after n steps.
func DetSequence(seed []byte, n int) (secs, pubs [][]byte, next []byte) {
	next = seed
	for i := 0; i < n; i++ {
		var p, s []byte
		next, p, s = DetIterator(next)
		secs = append(secs, s)
		pubs = append(pubs, p)
	}
	return
}
