package secp

import (
	"math/big"
	"testing"
)

func BenchmarkBaseMul(b *testing.B) {
	k := new(big.Int).Sub(N, big.NewInt(12345))
	for i := 0; i < b.N; i++ {
		BaseMul(k)
	}
}
func BenchmarkInv(b *testing.B) {
	k := new(big.Int).Sub(P, big.NewInt(12345))
	for i := 0; i < b.N; i++ {
		new(big.Int).ModInverse(k, P)
	}
}
