// Package secp is a deliberately boring textbook implementation of secp256k1 on math/big:
// affine point arithmetic, SEC1 compressed encoding, ECDSA with a caller-chosen nonce,
// public-key recovery (SEC1 4.1.6) and ECDH.  It imports nothing from skycoin and shares no
// code, table or trick with the implementation under test (no Jacobian coordinates, no wNAF,
// no GLV endomorphism, no precomputed tables, no 26-bit limbs); results of Mul are memoised per (scalar, point).
package secp

import (
	"errors"
	"math/big"
	"sync"
)

func hx(s string) *big.Int {
	v, ok := new(big.Int).SetString(s, 16)
	if !ok {
		panic("bad constant")
	}
	return v
}

// Curve parameters from SEC 2, section 2.4.1 (y^2 = x^3 + 7 over F_p).
var (
	P  = hx("FFFFFFFFFFFFFFFFFFFFFFFFFFFFFFFFFFFFFFFFFFFFFFFFFFFFFFFEFFFFFC2F")
	N  = hx("FFFFFFFFFFFFFFFFFFFFFFFFFFFFFFFEBAAEDCE6AF48A03BBFD25E8CD0364141")
	Gx = hx("79BE667EF9DCBBAC55A06295CE870B07029BFCDB2DCE28D959F2815B16F81798")
	Gy = hx("483ADA7726A3C4655DA4FBFC0E1108A8FD17B448A68554199C47D08FFB10D4B8")
	B  = big.NewInt(7)

	one   = big.NewInt(1)
	two   = big.NewInt(2)
	three = big.NewInt(3)
	// (p+1)/4, the square-root exponent valid because p = 3 mod 4
	sqrtExp = new(big.Int).Rsh(new(big.Int).Add(P, one), 2)
	// HalfN = floor(n/2)
	HalfN = new(big.Int).Rsh(N, 1)
)

// Point is an affine point or the point at infinity.
type Point struct {
	X, Y *big.Int
	Inf  bool
}

var Infinity = Point{Inf: true}

// G is the base point.
func G() Point { return Point{X: new(big.Int).Set(Gx), Y: new(big.Int).Set(Gy)} }

func mod(a *big.Int) *big.Int { return a.Mod(a, P) }

// OnCurve reports y^2 == x^3 + 7 (mod p) with 0 <= x,y < p; infinity is not "on the curve" here.
func OnCurve(a Point) bool {
	if a.Inf || a.X == nil || a.Y == nil {
		return false
	}
	if a.X.Sign() < 0 || a.Y.Sign() < 0 || a.X.Cmp(P) >= 0 || a.Y.Cmp(P) >= 0 {
		return false
	}
	l := mod(new(big.Int).Mul(a.Y, a.Y))
	r := new(big.Int).Mul(a.X, a.X)
	r.Mul(r, a.X)
	r.Add(r, B)
	mod(r)
	return l.Cmp(r) == 0
}

// Equal compares two points.
func Equal(a, b Point) bool {
	if a.Inf || b.Inf {
		return a.Inf == b.Inf
	}
	return a.X.Cmp(b.X) == 0 && a.Y.Cmp(b.Y) == 0
}

// Neg returns -a.
func Neg(a Point) Point {
	if a.Inf {
		return a
	}
	y := new(big.Int).Sub(P, a.Y)
	mod(y)
	return Point{X: new(big.Int).Set(a.X), Y: y}
}

// Double returns 2a (chord-and-tangent, affine).
func Double(a Point) Point {
	if a.Inf || a.Y.Sign() == 0 {
		return Infinity
	}
	// lambda = 3x^2 / 2y
	num := new(big.Int).Mul(a.X, a.X)
	num.Mul(num, three)
	den := new(big.Int).Mul(a.Y, two)
	den.ModInverse(mod(den), P)
	lam := mod(num.Mul(num, den))
	x := new(big.Int).Mul(lam, lam)
	x.Sub(x, a.X)
	x.Sub(x, a.X)
	mod(x)
	y := new(big.Int).Sub(a.X, x)
	y.Mul(y, lam)
	y.Sub(y, a.Y)
	mod(y)
	return Point{X: x, Y: y}
}

// Add returns a + b.
func Add(a, b Point) Point {
	if a.Inf {
		return b
	}
	if b.Inf {
		return a
	}
	if a.X.Cmp(b.X) == 0 {
		if a.Y.Cmp(b.Y) == 0 {
			return Double(a)
		}
		return Infinity
	}
	num := new(big.Int).Sub(b.Y, a.Y)
	den := new(big.Int).Sub(b.X, a.X)
	den.ModInverse(mod(den), P)
	lam := mod(num.Mul(num, den))
	x := new(big.Int).Mul(lam, lam)
	x.Sub(x, a.X)
	x.Sub(x, b.X)
	mod(x)
	y := new(big.Int).Sub(a.X, x)
	y.Mul(y, lam)
	y.Sub(y, a.Y)
	mod(y)
	return Point{X: x, Y: y}
}

// Mul returns k*a for any non-negative integer k (left-to-right double-and-add).
func Mul(k *big.Int, a Point) Point {
	if k.Sign() < 0 {
		panic("secp.Mul: negative scalar")
	}
	r := Infinity
	for i := k.BitLen() - 1; i >= 0; i-- {
		r = Double(r)
		if k.Bit(i) == 1 {
			r = Add(r, a)
		}
	}
	return r
}

// BaseMul returns k*G.
func BaseMul(k *big.Int) Point { return MulMemo(k, G()) }

// MulMemo is Mul with a result cache keyed by (k, point): the bounded alphabets of the checks reuse the same
// (scalar, point) pairs many thousands of times.  The cached value is exactly what Mul computed once.
var mulCache sync.Map

func MulMemo(k *big.Int, a Point) Point {
	if a.Inf {
		return Infinity
	}
	key := k.Text(16) + "*" + a.X.Text(16) + "," + string('0'+byte(a.Y.Bit(0)))
	if v, ok := mulCache.Load(key); ok {
		return v.(Point)
	}
	r := Mul(k, a)
	mulCache.Store(key, r)
	return r
}

// ValidScalar reports 1 <= k <= n-1 (a valid secret key / nonce).
func ValidScalar(k *big.Int) bool { return k.Sign() > 0 && k.Cmp(N) < 0 }

// LiftX returns the point with the given x (must satisfy 0 <= x < p) and y parity, if one exists.
func LiftX(x *big.Int, odd bool) (Point, bool) {
	if x.Sign() < 0 || x.Cmp(P) >= 0 {
		return Point{}, false
	}
	c := new(big.Int).Mul(x, x)
	c.Mul(c, x)
	c.Add(c, B)
	mod(c)
	y := new(big.Int).Exp(c, sqrtExp, P)
	if mod(new(big.Int).Mul(y, y)).Cmp(c) != 0 {
		return Point{}, false // x^3+7 is a non-residue
	}
	if (y.Bit(0) == 1) != odd {
		y.Sub(P, y)
		mod(y)
	}
	// y == 0 cannot happen on this curve (it would be a point of order 2; the group order is odd),
	// but keep the encoding honest: parity of 0 is even.
	if (y.Bit(0) == 1) != odd {
		return Point{}, false
	}
	return Point{X: new(big.Int).Set(x), Y: y}, true
}

// Errors of ParseCompressed, each a distinct rejection class.
var (
	ErrLength     = errors.New("length is not 33")
	ErrPrefix     = errors.New("prefix byte is not 02/03")
	ErrXRange     = errors.New("x coordinate >= p")
	ErrNotOnCurve = errors.New("x^3+7 is not a square")
)

// ParseCompressed decodes a SEC1 compressed point (2.3.4): 33 bytes, prefix 02/03, x < p, on the curve.
func ParseCompressed(b []byte) (Point, error) {
	if len(b) != 33 {
		return Point{}, ErrLength
	}
	if b[0] != 2 && b[0] != 3 {
		return Point{}, ErrPrefix
	}
	x := new(big.Int).SetBytes(b[1:])
	if x.Cmp(P) >= 0 {
		return Point{}, ErrXRange
	}
	pt, ok := LiftX(x, b[0] == 3)
	if !ok {
		return Point{}, ErrNotOnCurve
	}
	return pt, nil
}

// Bytes32 is the fixed-width big-endian encoding.
func Bytes32(v *big.Int) []byte {
	if v.Sign() < 0 || v.BitLen() > 256 {
		panic("secp.Bytes32: out of range")
	}
	out := make([]byte, 32)
	v.FillBytes(out)
	return out
}

// Compress encodes a finite point (SEC1 2.3.3 with compression).
func Compress(a Point) []byte {
	if a.Inf {
		panic("secp.Compress: infinity")
	}
	out := make([]byte, 33)
	out[0] = 2
	if a.Y.Bit(0) == 1 {
		out[0] = 3
	}
	copy(out[1:], Bytes32(a.X))
	return out
}

// Uncompressed encodes 04 || X || Y.
func Uncompressed(a Point) []byte {
	out := make([]byte, 65)
	out[0] = 4
	copy(out[1:33], Bytes32(a.X))
	copy(out[33:], Bytes32(a.Y))
	return out
}

// PubKey returns the compressed public key of secret d, or false if d is not in [1, n-1].
func PubKey(d *big.Int) ([]byte, bool) {
	if !ValidScalar(d) {
		return nil, false
	}
	return Compress(BaseMul(d)), true
}

// Sig is the outcome of SignWithNonce.
type Sig struct {
	R, S  *big.Int
	RecID int // bit0 = parity of the nonce point's y (after the low-s flip), bit1 = its x was >= n
}

// SignWithNonce is ECDSA (SEC1 4.1.3) with a caller-chosen nonce k and an already-hashed message z
// (any integer, reduced mod n as e).  Requires 1 <= d,k <= n-1.  ok == false when r == 0 or s == 0.
// With lowS the signature is normalised to s <= n/2 (and the recovery parity flipped), which is the
// convention of the implementation under test and of libsecp256k1.
func SignWithNonce(d, z, k *big.Int, lowS bool) (Sig, bool) {
	if !ValidScalar(d) || !ValidScalar(k) {
		panic("secp.SignWithNonce: scalar out of range")
	}
	R := BaseMul(k)
	recid := 0
	if R.X.Cmp(N) >= 0 {
		recid |= 2
	}
	if R.Y.Bit(0) == 1 {
		recid |= 1
	}
	r := new(big.Int).Mod(R.X, N)
	if r.Sign() == 0 {
		return Sig{}, false
	}
	s := new(big.Int).Mul(r, d)
	s.Add(s, z)
	s.Mod(s, N)
	s.Mul(s, new(big.Int).ModInverse(k, N))
	s.Mod(s, N)
	if s.Sign() == 0 {
		return Sig{}, false
	}
	if lowS && s.Cmp(HalfN) > 0 {
		s.Sub(N, s)
		recid ^= 1
	}
	return Sig{R: r, S: s, RecID: recid}, true
}

// Verify is ECDSA verification (SEC1 4.1.4) of (r,s) over the hashed message z for public point Q.
func Verify(Q Point, z, r, s *big.Int) bool {
	if !OnCurve(Q) {
		return false
	}
	if !ValidScalar(r) || !ValidScalar(s) {
		return false
	}
	w := new(big.Int).ModInverse(s, N)
	u1 := new(big.Int).Mul(z, w)
	u1.Mod(u1, N)
	u2 := new(big.Int).Mul(r, w)
	u2.Mod(u2, N)
	X := Add(BaseMul(u1), MulMemo(u2, Q))
	if X.Inf {
		return false
	}
	v := new(big.Int).Mod(X.X, N)
	return v.Cmp(r) == 0
}

// Recover is public-key recovery (SEC1 4.1.6) for recovery id recid in 0..3:
// x = r + (recid>>1)*n must be < p and the x of a curve point R with y parity recid&1;
// Q = r^-1 (s R - z G) = (s/r) R + (-z/r) G; fails when Q is infinity.
func Recover(z, r, s *big.Int, recid int) (Point, bool) {
	if recid < 0 || recid > 3 {
		return Point{}, false
	}
	if !ValidScalar(r) || !ValidScalar(s) {
		return Point{}, false
	}
	x := new(big.Int).Set(r)
	if recid&2 != 0 {
		x.Add(x, N)
	}
	if x.Cmp(P) >= 0 {
		return Point{}, false
	}
	R, ok := LiftX(x, recid&1 == 1)
	if !ok {
		return Point{}, false
	}
	rinv := new(big.Int).ModInverse(r, N)
	e := new(big.Int).Mod(z, N)
	negE := new(big.Int).Sub(N, e)
	negE.Mod(negE, N)
	u2 := new(big.Int).Mul(s, rinv)
	u2.Mod(u2, N)
	u1 := new(big.Int).Mul(negE, rinv)
	u1.Mod(u1, N)
	Q := Add(MulMemo(u2, R), BaseMul(u1))
	if Q.Inf {
		return Point{}, false
	}
	return Q, true
}

// ECDH returns d*Q; ok == false if d is not a valid scalar, Q is not a valid point, or the result is infinity.
func ECDH(Q Point, d *big.Int) (Point, bool) {
	if !ValidScalar(d) || !OnCurve(Q) {
		return Point{}, false
	}
	S := MulMemo(d, Q)
	if S.Inf {
		return Point{}, false
	}
	return S, true
}

// cbrtExp = (p+2)/9: p ≡ 7 (mod 9), so a^((p+2)/9) is a cube root of a whenever a is a cubic residue.
var cbrtExp = new(big.Int).Div(new(big.Int).Add(P, big.NewInt(2)), big.NewInt(9))

// LiftY returns a point with the given y (0 <= y < p), if y^2-7 is a cubic residue.
func LiftY(y *big.Int) (Point, bool) {
	if y.Sign() < 0 || y.Cmp(P) >= 0 {
		return Point{}, false
	}
	c := new(big.Int).Mul(y, y)
	c.Sub(c, B)
	mod(c)
	x := new(big.Int).Exp(c, cbrtExp, P)
	x3 := new(big.Int).Mul(x, x)
	x3.Mul(x3, x)
	if mod(x3).Cmp(c) != 0 {
		return Point{}, false
	}
	pt := Point{X: x, Y: new(big.Int).Set(y)}
	if !OnCurve(pt) {
		return Point{}, false
	}
	return pt, true
}
