// Package lattice builds the boundary value alphabets used by the bounded-exhaustive input checks.
package lattice

import (
	"math"
	"math/big"
	"sort"
)

// L64 is the 64-bit boundary lattice: small values, 2^k and 2^k±1, decimal and time constants of the code.
func L64() []uint64 {
	m := map[uint64]bool{}
	add := func(v uint64) { m[v] = true }
	for v := uint64(0); v <= 3; v++ {
		add(v)
	}
	for _, k := range []uint{8, 16, 31, 32, 33, 44, 63} {
		p := uint64(1) << k
		add(p - 1)
		add(p)
		add(p + 1)
	}
	add(math.MaxUint64)
	add(math.MaxUint64 - 1)
	add(math.MaxUint64 - 2)
	add(1<<32 - 2)
	for _, c := range []uint64{10, 1000, 1e6, 3600, 3600e6, 1e14, 1e18} {
		add(c - 1)
		add(c)
		add(c + 1)
	}
	// multiples of 1e6 near 2^64
	top := uint64(math.MaxUint64) / 1e6 * 1e6
	add(top)
	add(top - 1e6)
	add(top + 999999)
	add(18446744073709) // 2^64/1e6
	add(18446744073710)
	add(5124095576030431) // 2^64/3600
	add(5124095576030432)
	out := make([]uint64, 0, len(m))
	for v := range m {
		out = append(out, v)
	}
	sort.Slice(out, func(i, j int) bool { return out[i] < out[j] })
	return out
}

// Around returns v-d..v+d clipped to uint64.
func Around(v uint64, d uint64) []uint64 {
	var out []uint64
	for i := uint64(0); i <= 2*d; i++ {
		x := new(big.Int).SetUint64(v)
		x.Add(x, new(big.Int).SetInt64(int64(i)-int64(d)))
		if x.Sign() >= 0 && x.IsUint64() {
			out = append(out, x.Uint64())
		}
	}
	return out
}

func L32() []uint32 {
	m := map[uint32]bool{}
	for v := uint32(0); v <= 3; v++ {
		m[v] = true
	}
	for _, k := range []uint{8, 16, 31} {
		p := uint32(1) << k
		m[p-1], m[p], m[p+1] = true, true, true
	}
	m[math.MaxUint32], m[math.MaxUint32-1], m[math.MaxUint32-2] = true, true, true
	m[10], m[1000], m[999999], m[1000000] = true, true, true, true
	out := make([]uint32, 0, len(m))
	for v := range m {
		out = append(out, v)
	}
	sort.Slice(out, func(i, j int) bool { return out[i] < out[j] })
	return out
}

func Dedup(vs []uint64) []uint64 {
	m := map[uint64]bool{}
	var out []uint64
	for _, v := range vs {
		if !m[v] {
			m[v] = true
			out = append(out, v)
		}
	}
	sort.Slice(out, func(i, j int) bool { return out[i] < out[j] })
	return out
}
