// Package wireintro is the reference model for C25: which introduction messages may introduce a peer, and the
// pre-introduction gate.  Written from the documentation of IntroductionMessage.Extra, params.VerifyTxn and the
// useragent package; it imports nothing of skycoin.
package wireintro

import (
	"encoding/binary"
	"strings"
)

// Defect classes (each maps to one disconnect reason of the daemon).
const (
	Self            = "self-connection"
	Version         = "version-not-supported"
	NoPubkey        = "pubkey-not-provided"
	ExtraData       = "invalid-extra-data"
	PubkeyMismatch  = "pubkey-not-matched"
	BurnFactor      = "invalid-burn-factor"
	MaxTxnSize      = "invalid-max-transaction-size"
	DropletPrec     = "invalid-max-droplet-precision"
	UserAgent       = "invalid-user-agent"
	minBurnFactor   = 2
	minMaxTxnSize   = 1024
	maxDropletPrec  = 6
	userAgentMaxLen = 256
)

type Config struct {
	Mirror     uint32
	MinVersion int32
	Pubkey     [33]byte
}

type Intro struct {
	Mirror  uint32
	Version int32
	Extra   []byte
}

type Parsed struct {
	Burn, MaxSize           uint32
	Precision               uint8
	Coin, UAVersion, Remark string
	Genesis                 [32]byte
}

// Verify returns every defect of the introduction that can be established (fields behind a structural defect
// cannot be located, so parsing stops there), in structural order.  No defect = the peer may be introduced, and
// Parsed holds what the daemon must remember about it.
//
// Extra = pubkey[33] | burn u32 | maxsize u32 | precision u8 | user agent (u32 length <= 256, bytes) | genesis hash[32] (optional; later bytes ignored)
func Verify(c Config, in Intro) (defects []string, p Parsed) {
	add := func(d string) { defects = append(defects, d) }
	if in.Mirror == c.Mirror {
		add(Self)
	}
	if in.Version < c.MinVersion {
		add(Version)
	}
	e := in.Extra
	if len(e) == 0 {
		add(NoPubkey)
		return
	}
	if len(e) < 33 {
		add(ExtraData)
		return
	}
	if string(e[:33]) != string(c.Pubkey[:]) {
		add(PubkeyMismatch)
	}
	e = e[33:]
	if len(e) < 9 {
		add(ExtraData)
		return
	}
	p.Burn, p.MaxSize, p.Precision = binary.LittleEndian.Uint32(e), binary.LittleEndian.Uint32(e[4:]), e[8]
	e = e[9:]
	if p.Burn < minBurnFactor {
		add(BurnFactor)
	}
	if p.MaxSize < minMaxTxnSize {
		add(MaxTxnSize)
	}
	if p.Precision > maxDropletPrec {
		add(DropletPrec)
	}
	if len(e) < 4 {
		add(ExtraData)
		return
	}
	n := binary.LittleEndian.Uint32(e)
	e = e[4:]
	if n > userAgentMaxLen || uint64(n) > uint64(len(e)) {
		add(ExtraData)
		return
	}
	ua := string(e[:n])
	e = e[n:]
	var ok bool
	if p.Coin, p.UAVersion, p.Remark, ok = ParseUserAgent(Sanitize(ua)); !ok {
		add(UserAgent)
	}
	switch {
	case len(e) == 0:
	case len(e) < 32:
		add(ExtraData)
	default:
		copy(p.Genesis[:], e)
	}
	return
}

// Sanitize drops every byte that is not printable ASCII or is one of the characters forbidden in user agents
// (the daemon strips them before validating, so that they can never reach logs or the API).
func Sanitize(s string) string {
	var b strings.Builder
	for i := 0; i < len(s); i++ {
		c := s[i]
		if c < 0x20 || c > 0x7e || strings.IndexByte("<>&\"'#@|{}`", c) >= 0 {
			continue
		}
		b.WriteByte(c)
	}
	return b.String()
}

func only(s, set string) bool {
	for i := 0; i < len(s); i++ {
		if strings.IndexByte(set, s[i]) < 0 {
			return false
		}
	}
	return true
}

const (
	digits = "0123456789"
	alnum  = "ABCDEFGHIJKLMNOPQRSTUVWXYZabcdefghijklmnopqrstuvwxyz" + digits
)

// ParseUserAgent: NAME ":" SEMVER [ "(" REMARK ")" ]
func ParseUserAgent(s string) (coin, version, remark string, ok bool) {
	if len(s) == 0 || len(s) > userAgentMaxLen {
		return
	}
	i := strings.IndexByte(s, ':')
	if i <= 0 || !only(s[:i], alnum+"-_+") {
		return
	}
	coin, rest := s[:i], s[i+1:]
	version = rest
	if j := strings.IndexByte(rest, '('); j >= 0 {
		version = rest[:j]
		rm := rest[j:]
		if len(rm) < 3 || rm[len(rm)-1] != ')' {
			return "", "", "", false
		}
		remark = rm[1 : len(rm)-1]
		if !only(remark, alnum+"-_+;:!$%,.=?~ ") {
			return "", "", "", false
		}
	}
	if !only(version, alnum+"-.+") || !semverOK(version) {
		return "", "", "", false
	}
	return coin, version, remark, true
}

func numeric(s string) bool { return s != "" && only(s, digits) && (len(s) == 1 || s[0] != '0') }

// semverOK: semver.org 2.0.0 — MAJOR.MINOR.PATCH[-prerelease][+build]
func semverOK(v string) bool {
	build := ""
	hasBuild := false
	if i := strings.IndexByte(v, '+'); i >= 0 {
		v, build, hasBuild = v[:i], v[i+1:], true
	}
	pre := ""
	hasPre := false
	if i := strings.IndexByte(v, '-'); i >= 0 {
		v, pre, hasPre = v[:i], v[i+1:], true
	}
	core := strings.Split(v, ".")
	if len(core) != 3 || !numeric(core[0]) || !numeric(core[1]) || !numeric(core[2]) {
		return false
	}
	if hasPre {
		for _, id := range strings.Split(pre, ".") {
			if id == "" || !only(id, alnum+"-") || (only(id, digits) && !numeric(id)) {
				return false
			}
		}
	}
	if hasBuild {
		for _, id := range strings.Split(build, ".") {
			if id == "" || !only(id, alnum+"-") {
				return false
			}
		}
	}
	return true
}

// ---- the pre-introduction gate ----------------------------------------------------------------------------

// Gate states of one connection as seen by the daemon.
const (
	Connected  = "connected"
	Introduced = "introduced"
	Gone       = "gone"
)

// AllowedBeforeIntroduction: the only messages that may be acted on while a connection is not introduced.
func AllowedBeforeIntroduction(id string) bool { return id == "INTR" || id == "DISC" || id == "GIVP" }
