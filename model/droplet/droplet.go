// Package droplet is the reference model for C30 (coin amount text conversion): exact big-integer
// arithmetic on (mantissa, decimal exponent) pairs.  It imports neither the repository nor a decimal library.
//
// One coin = 10^6 droplets.  A text t denotes the rational number V(t); its droplet value is V(t)*10^6.
package droplet

import (
	"math/big"
	"strings"
)

// Decimals is the number of decimal places of a coin amount.
const Decimals = 6

// MaxDroplets = 2^63-1, the largest representable amount.
var MaxDroplets = new(big.Int).SetUint64(1<<63 - 1)

// Num is +-Mant * 10^Exp.
type Num struct {
	Neg   bool
	Mant  *big.Int // >= 0
	Exp   int64    // saturated to +-ExpSat when the written exponent does not fit
	Plain bool     // matches [0-9]+(\.[0-9]*)? — the syntax for which acceptance is decided by the statement
}

// ExpSat is the magnitude beyond which exponents are saturated (no amount near it can be representable).
const ExpSat = int64(1) << 40

func allDigits(s string) bool {
	for i := 0; i < len(s); i++ {
		if s[i] < '0' || s[i] > '9' {
			return false
		}
	}
	return true
}

// Parse reads the conventional decimal literal grammar
//
//	[+-]? ( digits [ "." digits* ] | "." digits+ ) [ (e|E) [+-]? digits+ ]
//
// and reports ok=false for anything else.
func Parse(s string) (n Num, ok bool) {
	rest := s
	if rest != "" && (rest[0] == '+' || rest[0] == '-') {
		n.Neg = rest[0] == '-'
		rest = rest[1:]
	}
	expPart := ""
	hasExp := false
	if i := strings.IndexAny(rest, "eE"); i >= 0 {
		expPart, rest, hasExp = rest[i+1:], rest[:i], true
	}
	intPart, fracPart, hasPoint := rest, "", false
	if i := strings.IndexByte(rest, '.'); i >= 0 {
		intPart, fracPart, hasPoint = rest[:i], rest[i+1:], true
	}
	if !allDigits(intPart) || !allDigits(fracPart) || len(intPart)+len(fracPart) == 0 {
		return Num{}, false
	}
	n.Plain = s == rest && !hasExp && len(intPart) > 0 // no sign, no exponent, digits before the optional point
	_ = hasPoint
	n.Mant, _ = new(big.Int).SetString("0"+intPart+fracPart, 10)
	n.Exp = -int64(len(fracPart))
	if hasExp {
		es := expPart
		eneg := false
		if es != "" && (es[0] == '+' || es[0] == '-') {
			eneg = es[0] == '-'
			es = es[1:]
		}
		if es == "" || !allDigits(es) {
			return Num{}, false
		}
		es = strings.TrimLeft(es, "0")
		var e int64
		if len(es) > 12 {
			e = ExpSat
		} else {
			for i := 0; i < len(es); i++ {
				e = e*10 + int64(es[i]-'0')
			}
		}
		if eneg {
			e = -e
		}
		n.Exp += e
	}
	return n, true
}

// Droplets returns V*10^6 when it is an integer of magnitude below 10^40 (class "int");
// otherwise class is "fraction" (not a whole number of droplets) or "huge" (integer, magnitude >= 10^40 — far beyond 2^64).
func (n Num) Droplets() (d *big.Int, class string) {
	if n.Mant.Sign() == 0 {
		return new(big.Int), "int"
	}
	e := n.Exp + Decimals
	digits := int64(len(n.Mant.String()))
	if e >= 0 {
		if e+digits > 40 {
			return nil, "huge"
		}
		d = new(big.Int).Mul(n.Mant, new(big.Int).Exp(big.NewInt(10), big.NewInt(e), nil))
	} else {
		if -e >= digits {
			return nil, "fraction" // |V*10^6| < 1 and non-zero
		}
		q, r := new(big.Int).QuoRem(n.Mant, new(big.Int).Exp(big.NewInt(10), big.NewInt(-e), nil), new(big.Int))
		if r.Sign() != 0 {
			return nil, "fraction"
		}
		if int64(len(q.String())) > 40 {
			return nil, "huge"
		}
		d = q
	}
	if n.Neg {
		d.Neg(d)
	}
	return d, "int"
}

// Representable reports whether V*10^6 is an integer in [0, 2^63-1], and that integer.
func (n Num) Representable() (uint64, bool) {
	d, class := n.Droplets()
	if class != "int" || d.Sign() < 0 || d.Cmp(MaxDroplets) > 0 {
		return 0, false
	}
	return d.Uint64(), true
}

// Format renders an amount of droplets as its six-decimal text.
func Format(n uint64) string {
	s := new(big.Int).SetUint64(n).String()
	for len(s) < Decimals+1 {
		s = "0" + s
	}
	return s[:len(s)-Decimals] + "." + s[len(s)-Decimals:]
}
