package droplet

import "testing"

func TestParseAndDroplets(t *testing.T) {
	type tc struct {
		s     string
		ok    bool
		plain bool
		rep   bool
		n     uint64
		class string
	}
	for _, c := range []tc{
		{"0", true, true, true, 0, "int"},
		{"1", true, true, true, 1000000, "int"},
		{"1.", true, true, true, 1000000, "int"},
		{"0.000001", true, true, true, 1, "int"},
		{"0.0000010", true, true, true, 1, "int"},
		{"0.0000001", true, true, false, 0, "fraction"},
		{"9223372036854.775807", true, true, true, 1<<63 - 1, "int"},
		{"9223372036854.775808", true, true, false, 0, "int"},
		{"99999999999999999999999999999999999999999999", true, true, false, 0, "huge"},
		{".5", true, false, true, 500000, "int"},
		{"+1", true, false, true, 1000000, "int"},
		{"-1", true, false, false, 0, "int"},
		{"-0", true, false, true, 0, "int"},
		{"1e-6", true, false, true, 1, "int"},
		{"1e-7", true, false, false, 0, "fraction"},
		{"10e-7", true, false, true, 1, "int"},
		{"1e12", true, false, true, 1000000000000000000, "int"},
		{"1e13", true, false, false, 0, "int"},
		{"1e2147483647", true, false, false, 0, "huge"},
		{"0e2147483647", true, false, true, 0, "int"},
		{"1e-99999999999999999999", true, false, false, 0, "fraction"},
		{".+1", false, false, false, 0, ""},
		{".", false, false, false, 0, ""},
		{"", false, false, false, 0, ""},
		{"1e", false, false, false, 0, ""},
		{"e1", false, false, false, 0, ""},
		{" 1", false, false, false, 0, ""},
		{"1.1.1", false, false, false, 0, ""},
		{"1e1e1", false, false, false, 0, ""},
		{"+-1", false, false, false, 0, ""},
	} {
		n, ok := Parse(c.s)
		if ok != c.ok {
			t.Fatalf("Parse(%q) ok=%v", c.s, ok)
		}
		if !ok {
			continue
		}
		if n.Plain != c.plain {
			t.Fatalf("Parse(%q).Plain=%v", c.s, n.Plain)
		}
		_, class := n.Droplets()
		if class != c.class {
			t.Fatalf("Droplets(%q) class %s want %s", c.s, class, c.class)
		}
		v, rep := n.Representable()
		if rep != c.rep || v != c.n {
			t.Fatalf("Representable(%q) = %d,%v want %d,%v", c.s, v, rep, c.n, c.rep)
		}
	}
	for n, want := range map[uint64]string{0: "0.000000", 1: "0.000001", 999999: "0.999999", 1000000: "1.000000", 123000456: "123.000456", 1<<63 - 1: "9223372036854.775807", 1<<64 - 1: "18446744073709.551615"} {
		if got := Format(n); got != want {
			t.Fatalf("Format(%d)=%q want %q", n, got, want)
		}
	}
}
