package peers

import (
	"fmt"
	"sort"
	"strings"
	"unicode"
)

// ---------------------------------------------------------------------------------------------
// C26: what the peer list may contain and how it may change.  Written from the property statement:
//   "The peer list only ever contains addresses of the form ip:port with a global unicast IPv4 address
//    (or loopback when explicitly allowed) and a port of at least 1024; bulk additions never grow it
//    beyond its configured maximum, and trusted peers are never evicted to make room or dropped as stale."
// Nothing here imports or mirrors the pex package.
// ---------------------------------------------------------------------------------------------

// AddrClass is the verdict of the independent address validator.
type AddrClass struct {
	OK        bool
	Reason    string // why not (stable class name)
	Loopback  bool
	Canonical bool // no redundant leading zeros in the port
}

func asciiDigits(s string) bool {
	if s == "" {
		return false
	}
	for i := 0; i < len(s); i++ {
		if s[i] < '0' || s[i] > '9' {
			return false
		}
	}
	return true
}

// ClassifyPeerAddr judges a STORED address string exactly as it is (no trimming).
func ClassifyPeerAddr(addr string, allowLoopback bool) AddrClass {
	if strings.Count(addr, ":") != 1 {
		return AddrClass{Reason: "not-ip:port"}
	}
	i := strings.IndexByte(addr, ':')
	ip, port := addr[:i], addr[i+1:]
	oct := strings.Split(ip, ".")
	if len(oct) != 4 {
		return AddrClass{Reason: "not-dotted-quad"}
	}
	var b [4]int
	for k, o := range oct {
		if !asciiDigits(o) || len(o) > 3 || (len(o) > 1 && o[0] == '0') {
			return AddrClass{Reason: "not-dotted-quad"}
		}
		v := 0
		for _, c := range o {
			v = v*10 + int(c-'0')
		}
		if v > 255 {
			return AddrClass{Reason: "not-dotted-quad"}
		}
		b[k] = v
	}
	loop := b[0] == 127
	switch {
	case b[0] == 0 && b[1] == 0 && b[2] == 0 && b[3] == 0:
		return AddrClass{Reason: "unspecified-ip"}
	case b[0] == 255 && b[1] == 255 && b[2] == 255 && b[3] == 255:
		return AddrClass{Reason: "broadcast-ip"}
	case b[0] >= 224 && b[0] <= 239:
		return AddrClass{Reason: "multicast-ip"}
	case b[0] == 169 && b[1] == 254:
		return AddrClass{Reason: "link-local-ip"}
	case loop && !allowLoopback:
		return AddrClass{Reason: "loopback-not-allowed", Loopback: true}
	}
	if !asciiDigits(port) {
		return AddrClass{Reason: "port-not-decimal", Loopback: loop}
	}
	p := strings.TrimLeft(port, "0")
	if len(p) > 5 {
		return AddrClass{Reason: "port-out-of-range", Loopback: loop}
	}
	v := 0
	for _, c := range p {
		v = v*10 + int(c-'0')
	}
	if v > 65535 {
		return AddrClass{Reason: "port-out-of-range", Loopback: loop}
	}
	if v < 1024 {
		return AddrClass{Reason: "port-below-1024", Loopback: loop}
	}
	return AddrClass{OK: true, Loopback: loop, Canonical: p == port}
}

// StripSpace removes every Unicode white space character (an implementation may sanitise its input this way
// before storing it; what is STORED is judged by ClassifyPeerAddr).
func StripSpace(s string) string {
	return strings.Map(func(r rune) rune {
		if unicode.IsSpace(r) {
			return -1
		}
		return r
	}, s)
}

// PeerView is one entry of the peer list as observed.
type PeerView struct {
	Key      string // key under which the list holds the entry
	Addr     string
	LastSeen int64
	Trusted  bool
	Retry    int
}

const (
	OpAdd      = "add"      // AddPeer(Args[0])
	OpAddPeers = "addPeers" // AddPeers(Args)
	OpRemove   = "remove"   // RemovePeer(Args[0])
	OpTrust    = "trust"    // set trusted(Args[0])
	OpRetry    = "retry"    // IncreaseRetryTimes(Args[0]) one or more times
	OpClock    = "clock"    // time passes
	OpClearOld = "clearOld" // stale peers are dropped
	OpReload   = "reload"   // save, then a new instance loads the file; Args = the configured default (trusted) peers
)

const EvictAfter = 24 * 60 * 60 // seconds a peer must be unseen before AddPeer may evict it from a full list

// PexStep is one observed transition.
type PexStep struct {
	Op            string
	Args          []string
	Max           int
	AllowLoopback bool
	Now           int64 // unix seconds when the operation started
	Expiration    int64 // seconds; clearOld may drop untrusted peers unseen for longer
	Pre, Post     []PeerView
}

type Verdict struct {
	Sig    string
	Detail string
}

func byKey(ps []PeerView) map[string]PeerView {
	m := map[string]PeerView{}
	for _, p := range ps {
		m[p.Key] = p
	}
	return m
}

// JudgeList: the state oracle — every stored address is valid, the bound holds.
func JudgeList(list []PeerView, max int, allowLoopback bool, site string) []Verdict {
	var out []Verdict
	for _, p := range list {
		if p.Key != p.Addr {
			out = append(out, Verdict{site + ":entry-key-differs-from-peer-address", fmt.Sprintf("key %q holds peer %q", p.Key, p.Addr)})
		}
		if c := ClassifyPeerAddr(p.Key, allowLoopback); !c.OK {
			out = append(out, Verdict{site + ":invalid-address-stored:" + c.Reason, fmt.Sprintf("peer list contains %q (%s)", p.Key, c.Reason)})
		}
	}
	if max > 0 && len(list) > max {
		out = append(out, Verdict{site + ":list-exceeds-max", fmt.Sprintf("%d peers stored, Max=%d", len(list), max)})
	}
	return out
}

// JudgePexStep: the step oracle — which entries may disappear / appear in this operation.
func JudgePexStep(s PexStep) []Verdict {
	site := "Pex." + s.Op
	out := JudgeList(s.Post, 0, s.AllowLoopback, site)
	pre, post := byKey(s.Pre), byKey(s.Post)

	// the bound: no operation grows a list that respected the bound beyond it
	if s.Max > 0 && len(s.Pre) <= s.Max && len(s.Post) > s.Max {
		out = append(out, Verdict{site + ":grows-list-beyond-max", fmt.Sprintf("%d -> %d peers, Max=%d", len(s.Pre), len(s.Post), s.Max)})
	}

	clean := map[string]bool{}
	for _, a := range s.Args {
		clean[StripSpace(a)] = true
	}

	var removed, added []string
	for k := range pre {
		if _, ok := post[k]; !ok {
			removed = append(removed, k)
		}
	}
	for k := range post {
		if _, ok := pre[k]; !ok {
			added = append(added, k)
		}
	}
	sort.Strings(removed)
	sort.Strings(added)

	// trusted peers stay (and stay trusted) unless explicitly removed
	for _, k := range sortedKeys(pre) {
		p := pre[k]
		if !p.Trusted {
			continue
		}
		if s.Op == OpRemove && len(s.Args) == 1 && s.Args[0] == k {
			continue
		}
		q, ok := post[k]
		if !ok {
			out = append(out, Verdict{site + ":trusted-peer-dropped", fmt.Sprintf("trusted peer %s (last seen %d s ago, retries %d) is gone", k, s.Now-p.LastSeen, p.Retry)})
		} else if !q.Trusted {
			out = append(out, Verdict{site + ":trusted-flag-lost", fmt.Sprintf("peer %s is no longer trusted", k)})
		}
	}

	// what may disappear
	for _, k := range removed {
		p := pre[k]
		age := s.Now - p.LastSeen
		switch s.Op {
		case OpRemove:
			if !(len(s.Args) == 1 && s.Args[0] == k) {
				out = append(out, Verdict{site + ":removes-other-peer", fmt.Sprintf("RemovePeer(%q) removed %s", s.Args[0], k)})
			}
		case OpAdd:
			full := s.Max > 0 && len(s.Pre) >= s.Max
			switch {
			case p.Trusted:
				// reported above as trusted-peer-dropped
			case !full:
				out = append(out, Verdict{site + ":evicts-although-not-full", fmt.Sprintf("%s removed, list had %d/%d peers", k, len(s.Pre), s.Max)})
			case age < EvictAfter:
				out = append(out, Verdict{site + ":evicts-recently-seen-peer", fmt.Sprintf("%s evicted although seen %d s ago (< %d)", k, age, EvictAfter)})
			case len(removed) > 1:
				out = append(out, Verdict{site + ":evicts-more-than-one", fmt.Sprintf("removed %v", removed)})
			case len(added) != 1:
				out = append(out, Verdict{site + ":evicts-without-adding", fmt.Sprintf("%s evicted, added %v", k, added)})
			}
		case OpClearOld:
			if !p.Trusted && age <= s.Expiration {
				out = append(out, Verdict{site + ":drops-peer-that-is-not-stale", fmt.Sprintf("%s dropped although seen %d s ago (expiration %d)", k, age, s.Expiration)})
			}
		case OpReload:
			// an untrusted peer may be left out of the file (too many failed retries); trusted ones are judged above
		default:
			if !p.Trusted {
				out = append(out, Verdict{site + ":removes-peer", fmt.Sprintf("%s disappeared", k)})
			}
		}
	}
	// what may appear
	for _, k := range added {
		switch s.Op {
		case OpAdd, OpAddPeers:
			if !clean[k] {
				out = append(out, Verdict{site + ":adds-address-not-given", fmt.Sprintf("%q appeared, arguments were %q", k, s.Args)})
			}
		case OpReload:
			if !clean[k] {
				out = append(out, Verdict{site + ":adds-address-not-in-file-or-defaults", fmt.Sprintf("%q appeared", k)})
			}
		default:
			out = append(out, Verdict{site + ":adds-peer", fmt.Sprintf("%q appeared", k)})
		}
	}
	return out
}

func sortedKeys(m map[string]PeerView) []string {
	ks := make([]string, 0, len(m))
	for k := range m {
		ks = append(ks, k)
	}
	sort.Strings(ks)
	return ks
}

// ShuffleOrder reproduces verif/shim/vrand.Shuffle (Fisher-Yates, answers consumed for i = n-1 .. 1) so that a
// harness can tell which answer vector leads to which order; NOT used by any oracle.
func ShuffleOrder(n int, answers []int) []int {
	idx := make([]int, n)
	for i := range idx {
		idx[i] = i
	}
	a := 0
	for i := n - 1; i > 0; i-- {
		j := 0
		if a < len(answers) {
			j = answers[a] % (i + 1)
		}
		a++
		idx[i], idx[j] = idx[j], idx[i]
	}
	return idx
}
