// Package peers holds the reference models of group "peers" (C24 connection bookkeeping, C26 peer list).
// They are written from the property statements and must not import the skycoin packages they judge.
package peers

import (
	"fmt"
	"net"
	"sort"
	"strconv"
)

// ---------------------------------------------------------------------------------------------
// C24: the set of live connections and the indexes that must describe exactly that set.
// ---------------------------------------------------------------------------------------------

const (
	StPending    = "pending"
	StConnected  = "connected"
	StIntroduced = "introduced"
)

// Rejection reasons (names of the documented error values of the Connections state machine).
const (
	RExists            = "ErrConnectionExists"
	RNotExist          = "ErrConnectionNotExist"
	RIPMirrorExists    = "ErrConnectionIPMirrorExists"
	RStateNotConnected = "ErrConnectionStateNotConnected"
	RGnetIDMismatch    = "ErrConnectionGnetIDMismatch"
	RAlreadyIntroduced = "ErrConnectionAlreadyIntroduced"
	RAlreadyConnected  = "ErrConnectionAlreadyConnected"
	RInvalidGnetID     = "ErrInvalidGnetID"
)

// Conn is one live connection of the model.
type Conn struct {
	Addr       string
	State      string
	Outgoing   bool // created by an outgoing attempt (pending)
	Mirror     uint32
	ListenPort uint16 // 0 = unknown
	ID         uint64 // 0 until connected
}

// IP returns the host part of the connection address.
func (c *Conn) IP() string { return ipOf(c.Addr) }

// ListenAddr is "ip:ListenPort" when the listen port is known, "" otherwise.
func (c *Conn) ListenAddr() string {
	if c.ListenPort == 0 {
		return ""
	}
	return net.JoinHostPort(c.IP(), strconv.Itoa(int(c.ListenPort)))
}

func ipOf(addr string) string {
	h, _, err := net.SplitHostPort(addr)
	if err != nil {
		panic("model: bad address in alphabet: " + addr)
	}
	return h
}

func portOf(addr string) uint16 {
	_, p, err := net.SplitHostPort(addr)
	if err != nil {
		panic("model: bad address in alphabet: " + addr)
	}
	n, err := strconv.ParseUint(p, 10, 16)
	if err != nil {
		panic("model: bad port in alphabet: " + addr)
	}
	return uint16(n)
}

// ConnModel is the live set.
type ConnModel struct {
	Live map[string]*Conn
}

func NewConnModel() *ConnModel { return &ConnModel{Live: map[string]*Conn{}} }

// Pending: an outgoing attempt to addr.  Returns the set of applicable rejection reasons (empty = must succeed).
func (m *ConnModel) Pending(addr string) []string {
	if _, ok := m.Live[addr]; ok {
		return []string{RExists}
	}
	m.Live[addr] = &Conn{Addr: addr, State: StPending, Outgoing: true, ListenPort: portOf(addr)}
	return nil
}

// Connected: the transport reports an established connection addr with connection id id.
func (m *ConnModel) Connected(addr string, id uint64) []string {
	var rej []string
	if id == 0 {
		rej = append(rej, RInvalidGnetID)
	}
	c := m.Live[addr]
	if c != nil {
		switch c.State {
		case StConnected:
			rej = append(rej, RAlreadyConnected)
		case StIntroduced:
			rej = append(rej, RAlreadyIntroduced)
		}
	}
	if len(rej) > 0 {
		return rej
	}
	if c == nil {
		c = &Conn{Addr: addr} // incoming connection: begins in the connected state, listen port unknown
		m.Live[addr] = c
	}
	c.State = StConnected
	c.ID = id
	return nil
}

// Introduced: the peer at addr completed the handshake over connection id.
// Allowed only from the connected state with the matching id, and only if no other introduced
// connection has the same (IP, mirror).
func (m *ConnModel) Introduced(addr string, id uint64, mirror uint32, listenPort uint16) []string {
	var rej []string
	if id == 0 {
		rej = append(rej, RInvalidGnetID)
	}
	c := m.Live[addr]
	if c == nil {
		rej = append(rej, RNotExist)
		return rej
	}
	switch c.State {
	case StPending:
		rej = append(rej, RStateNotConnected)
	case StIntroduced:
		rej = append(rej, RAlreadyIntroduced)
	case StConnected:
		if c.ID != id {
			rej = append(rej, RGnetIDMismatch)
		}
	}
	for _, o := range m.Live {
		if o != c && o.State == StIntroduced && o.IP() == c.IP() && o.Mirror == mirror {
			rej = append(rej, RIPMirrorExists)
		}
	}
	if len(rej) > 0 {
		return rej
	}
	c.State = StIntroduced
	c.Mirror = mirror
	if !c.Outgoing {
		// an incoming peer's listen port is what it reports; for an outgoing one it is the port we dialled
		c.ListenPort = listenPort
	}
	return nil
}

// Remove: disconnect (id = connection id) or connect failure (id = 0) for addr.
func (m *ConnModel) Remove(addr string, id uint64) []string {
	c := m.Live[addr]
	if c == nil {
		return []string{RNotExist}
	}
	if c.ID != id {
		return []string{RGnetIDMismatch}
	}
	delete(m.Live, addr)
	return nil
}

// MirrorEntry etc.: canonical, sorted form of the indexes recomputed from the live set.
type MirrorEntry struct {
	Mirror uint32
	IP     string
	Port   uint16
}
type IPCount struct {
	IP    string
	Count int
}
type GnetID struct {
	ID   uint64
	Addr string
}
type ListenAddr struct {
	ListenAddr string
	Addrs      []string // sorted
}

type ConnMaps struct {
	Conns       []Conn
	Mirrors     []MirrorEntry
	IPCounts    []IPCount
	GnetIDs     []GnetID
	ListenAddrs []ListenAddr
}

// Expected recomputes the five indexes from nothing but the live set.
func (m *ConnModel) Expected() ConnMaps {
	var e ConnMaps
	addrs := make([]string, 0, len(m.Live))
	for a := range m.Live {
		addrs = append(addrs, a)
	}
	sort.Strings(addrs)
	ipc := map[string]int{}
	la := map[string][]string{}
	for _, a := range addrs {
		c := m.Live[a]
		e.Conns = append(e.Conns, *c)
		ipc[c.IP()]++
		if c.State == StIntroduced {
			e.Mirrors = append(e.Mirrors, MirrorEntry{c.Mirror, c.IP(), c.ListenPort})
		}
		if c.ID != 0 {
			e.GnetIDs = append(e.GnetIDs, GnetID{c.ID, a})
		}
		if l := c.ListenAddr(); l != "" {
			la[l] = append(la[l], a)
		}
	}
	sort.Slice(e.Mirrors, func(i, j int) bool {
		a, b := e.Mirrors[i], e.Mirrors[j]
		if a.Mirror != b.Mirror {
			return a.Mirror < b.Mirror
		}
		return a.IP < b.IP
	})
	for ip, n := range ipc {
		e.IPCounts = append(e.IPCounts, IPCount{ip, n})
	}
	sort.Slice(e.IPCounts, func(i, j int) bool { return e.IPCounts[i].IP < e.IPCounts[j].IP })
	sort.Slice(e.GnetIDs, func(i, j int) bool { return e.GnetIDs[i].ID < e.GnetIDs[j].ID })
	for l, as := range la {
		sort.Strings(as)
		e.ListenAddrs = append(e.ListenAddrs, ListenAddr{l, as})
	}
	sort.Slice(e.ListenAddrs, func(i, j int) bool { return e.ListenAddrs[i].ListenAddr < e.ListenAddrs[j].ListenAddr })
	return e
}

// SharedIPMirror returns a description of two introduced connections with the same (IP, mirror), or "".
func (m *ConnModel) SharedIPMirror() string {
	seen := map[string]string{}
	addrs := make([]string, 0, len(m.Live))
	for a := range m.Live {
		addrs = append(addrs, a)
	}
	sort.Strings(addrs)
	for _, a := range addrs {
		c := m.Live[a]
		if c.State != StIntroduced {
			continue
		}
		k := fmt.Sprintf("%s/%d", c.IP(), c.Mirror)
		if o, ok := seen[k]; ok {
			return o + " and " + a + " share " + k
		}
		seen[k] = a
	}
	return ""
}
