// Package apimodel is the reference model for C27 (HTTP API access control): the golden route table built from
// /repo/src/api/README.md (spec/api_routes.json) and the reference predicate "may this request reach the
// endpoint's logic, and if not, which documented statuses may refuse it".  It is written from the property
// statement and the README only and deliberately imports nothing from skycoin.
package apimodel

import (
	"encoding/json"
	"fmt"
	"net"
	"net/url"
	"os"
	"sort"
	"strings"
)

type Param struct {
	Name string `json:"name"`
	Type string `json:"type"`
	In   string `json:"in,omitempty"`
}

// Route is one row of the golden table. Methods maps an HTTP method ("*" = every method) to the API sets of
// which one must be enabled; a nil list means "API sets: any" (always enabled).
type Route struct {
	Path       string              `json:"path"`
	API        string              `json:"api"`
	Methods    map[string][]string `json:"methods"`
	Doc        string              `json:"doc"`
	Resp       string              `json:"resp"`
	Params     []Param             `json:"params"`
	Body       string              `json:"body,omitempty"`
	Note       string              `json:"note,omitempty"`
	Documented *bool               `json:"documented,omitempty"`
}

type Golden struct {
	Version     int            `json:"version"`
	Source      string         `json:"source"`
	APISets     []string       `json:"api_sets"`
	Statuses    map[string]int `json:"statuses"`
	ReadmeNotes []string       `json:"readme_notes"`
	Routes      []Route        `json:"routes"`
}

func Load(path string) (*Golden, error) {
	b, err := os.ReadFile(path)
	if err != nil {
		return nil, err
	}
	var g Golden
	if err := json.Unmarshal(b, &g); err != nil {
		return nil, fmt.Errorf("%s: %v", path, err)
	}
	if len(g.Routes) == 0 || len(g.APISets) == 0 {
		return nil, fmt.Errorf("%s: empty table", path)
	}
	for _, l := range Layers {
		if g.Statuses[l] == 0 {
			return nil, fmt.Errorf("%s: no status for layer %s", path, l)
		}
	}
	return &g, nil
}

func (g *Golden) Route(path string) *Route {
	for i := range g.Routes {
		if g.Routes[i].Path == path {
			return &g.Routes[i]
		}
	}
	return nil
}

// Sets returns (sets, served): the API sets of the method on this route; served=false when the method is not
// served there; sets==nil with served=true means always enabled.
func (rt *Route) Sets(method string) (sets []string, served bool) {
	if s, ok := rt.Methods[method]; ok {
		return s, true
	}
	if s, ok := rt.Methods["*"]; ok {
		return s, true
	}
	return nil, false
}

// OwnSets is the union of the API sets over all methods of the route, sorted.
func (rt *Route) OwnSets() []string {
	m := map[string]bool{}
	for _, ss := range rt.Methods {
		for _, s := range ss {
			m[s] = true
		}
	}
	out := []string{}
	for s := range m {
		out = append(out, s)
	}
	sort.Strings(out)
	return out
}

// Layers in the order the statement lists the conditions (credentials are checked outermost by the server).
var Layers = []string{"auth", "content_type", "host", "origin", "csrf", "method", "api_set"}

// Config is a server configuration.
type Config struct {
	Enabled     map[string]bool
	CSRF        bool // token checking on
	HeaderCheck bool // Host / Origin / Referer checking on
	AuthUser    string
	AuthPass    string
	Host        string   // configured interface address host:port
	Whitelist   []string // additional accepted hosts
}

// Token classes (semantic; the harness constructs a token of each class against the running node).
const (
	TokNone           = "none"
	TokFresh          = "fresh"            // the most recently issued token, unexpired
	TokExpired        = "expired"          // issued by this node, lifetime over
	TokGarbage        = "garbage"          // not a token
	TokBadSig         = "badsig"           // fresh token with a damaged signature
	TokTampered       = "tampered"         // payload with a later expiry under the fresh token's signature
	TokOlder          = "older"            // issued by this node, unexpired, but a newer token has been issued since
	TokTruncSig       = "truncsig"         // fresh token's payload with the signature cut off
	TokForgedEmptyKey = "forged-empty-key" // well-formed unexpired payload signed by the client with an empty HMAC key
	TokForgedZeroKey  = "forged-zero-key"  // the same, signed with 64 zero bytes
)

// Request is the access-control relevant part of a request.
type Request struct {
	Method      string
	Token       string // token class
	Host        string // Host header value ("" = absent)
	Origin      string
	Referer     string
	AuthGiven   bool   // a well-formed Basic Authorization header is present
	AuthBroken  bool   // an Authorization header that is not well-formed Basic
	User, Pass  string // when AuthGiven
	ContentType string
}

// Expect is the verdict of the reference predicate.
type Expect struct {
	Reach    bool     // all conditions of the statement hold
	Failing  []string // failing layers, in Layers order
	Statuses []int    // documented statuses of the failing layers
	DontCare bool     // the statement does not decide this request (credentials sent to a node without credentials)
}

func isLoopbackHost(h string) bool {
	if h == "localhost" {
		return true
	}
	ip := net.ParseIP(h)
	return ip != nil && ip.IsLoopback()
}

func splitHostPort(hp string) (string, string) {
	h, p, err := net.SplitHostPort(hp)
	if err != nil {
		return hp, ""
	}
	return h, p
}

// acceptedHosts: for an interface bound to a loopback address the documented accepted names are 127.0.0.1:port and
// localhost:port plus the whitelist; for a public interface the configured host itself plus the whitelist.
func (c Config) acceptedHosts() (map[string]bool, bool) {
	acc := map[string]bool{}
	for _, w := range c.Whitelist {
		acc[w] = true
	}
	h, p := splitHostPort(c.Host)
	local := isLoopbackHost(h)
	if local {
		acc["127.0.0.1:"+p] = true
		acc["localhost:"+p] = true
	} else {
		acc[c.Host] = true
	}
	return acc, local
}

func isJSONContentType(ct string) bool {
	mt := ct
	if i := strings.IndexByte(ct, ';'); i >= 0 {
		mt = ct[:i]
	}
	return mt == "application/json"
}

// Expect evaluates the reference predicate for one request to one golden route.
func (g *Golden) Expect(rt *Route, c Config, rq Request) Expect {
	var failing []string
	dontCare := false
	// credentials
	if c.AuthUser != "" || c.AuthPass != "" {
		if !rq.AuthGiven || rq.User != c.AuthUser || rq.Pass != c.AuthPass {
			failing = append(failing, "auth")
		}
	} else if rq.AuthGiven && (rq.User != "" || rq.Pass != "") {
		dontCare = true
	}
	// /api/v2 POST accepts only application/json
	if rt.API == "v2" && rq.Method == "POST" && !isJSONContentType(rq.ContentType) {
		failing = append(failing, "content_type")
	}
	if c.HeaderCheck {
		acc, local := c.acceptedHosts()
		if local && rq.Host != "" && !acc[rq.Host] {
			failing = append(failing, "host")
		}
		eff := rq.Origin
		if eff == "" {
			eff = rq.Referer
		}
		if eff != "" {
			u, err := url.Parse(eff)
			if err != nil || !acc[u.Host] {
				failing = append(failing, "origin")
			}
		}
	}
	// state-changing requests carry a valid, unexpired, not superseded token (the token endpoint itself is exempt)
	if c.CSRF && rt.Path != "/api/v1/csrf" {
		switch rq.Method {
		case "POST", "PUT", "DELETE":
			if rq.Token != TokFresh {
				failing = append(failing, "csrf")
			}
		}
	}
	sets, served := rt.Sets(rq.Method)
	if !served {
		failing = append(failing, "method")
	} else if sets != nil {
		on := false
		for _, s := range sets {
			if c.Enabled[s] {
				on = true
			}
		}
		if !on {
			failing = append(failing, "api_set")
		}
	}
	e := Expect{Reach: len(failing) == 0, Failing: failing, DontCare: dontCare}
	for _, l := range failing {
		e.Statuses = append(e.Statuses, g.Statuses[l])
	}
	if dontCare {
		e.Statuses = append(e.Statuses, g.Statuses["auth"])
	}
	return e
}

// Allowed reports whether the observation (reached, status) is admitted by the expectation.
func (e Expect) Allowed(reached bool, status int) bool {
	if reached {
		return e.Reach // DontCare requests may also be reached when everything else holds
	}
	if e.Reach && !e.DontCare {
		return false
	}
	for _, s := range e.Statuses {
		if s == status {
			return true
		}
	}
	return false
}
