// Package ledger is the boring reference model of the skycoin ledger used by the ledger explorer
// (C01–C07, C33, C08).  Rules are transcribed from the property statements and the header comment of
// src/transaction/verify.go (DESIGN.md Appendix B), with big.Int arithmetic so that no sum can wrap.
//
// Trusted (decided independently by other checks): binary encoding / hashing of transactions, outputs
// and headers (C09, C21) and the signature primitive cipher.VerifyAddressSignedHash (C10, C14).
// The model never calls a verification function of coin / transaction / visor.
package ledger

import (
	"bytes"
	"math/big"
	"sort"
	"sync"

	"github.com/skycoin/skycoin/src/cipher"
	"github.com/skycoin/skycoin/src/coin"
)

type Hash = cipher.SHA256

var Two64 = new(big.Int).Lsh(big.NewInt(1), 64)

func bu(v uint64) *big.Int { return new(big.Int).SetUint64(v) }

// VerifyParams mirrors params.VerifyTxn (values only).
type VerifyParams struct {
	Burn      uint32
	MaxSize   uint32
	Precision uint8
}

type Params struct {
	Pubkey       cipher.PubKey
	Locked       map[cipher.Address]bool
	Unconfirmed  VerifyParams // foreign injections, Refresh
	CreateBlock  VerifyParams
	User         VerifyParams // params.UserVerifyTxn
	MaxBlockSize uint32
	// Arbitrating: a node that creates blocks.  When such a node is offered a block it evaluates the fee of every transaction
	// first, so a transaction whose output hours do not fit 64 bits is refused there (the documented in-block wrap tolerance
	// only exists on non-arbitrating nodes).
	Arbitrating bool
}

// Created records every output the chain ever created and, once spent, by what.
type Created struct {
	Out      coin.UxOut
	Spent    bool
	SpentSeq uint64
	SpentTxn Hash
	NSpent   int // how many times it was removed from the unspent set (must never exceed 1)
}

type PoolEntry struct {
	Txn   coin.Transaction
	Valid bool
}

type Model struct {
	P     Params
	Chain []coin.SignedBlock
	UTXO  map[Hash]coin.UxOut
	Outs  map[Hash]*Created
	Order []Hash // creation order of Outs
	Pool  map[Hash]*PoolEntry
}

func New(p Params) *Model {
	return &Model{P: p, UTXO: map[Hash]coin.UxOut{}, Outs: map[Hash]*Created{}, Pool: map[Hash]*PoolEntry{}}
}

func (m *Model) Clone() *Model {
	c := &Model{P: m.P, Chain: append([]coin.SignedBlock{}, m.Chain...), UTXO: make(map[Hash]coin.UxOut, len(m.UTXO)),
		Outs: make(map[Hash]*Created, len(m.Outs)), Order: append([]Hash{}, m.Order...), Pool: make(map[Hash]*PoolEntry, len(m.Pool))}
	for k, v := range m.UTXO {
		c.UTXO[k] = v
	}
	for k, v := range m.Outs {
		cv := *v
		c.Outs[k] = &cv
	}
	for k, v := range m.Pool {
		pv := *v
		c.Pool[k] = &pv
	}
	return c
}

func (m *Model) Head() *coin.SignedBlock {
	if len(m.Chain) == 0 {
		return nil
	}
	return &m.Chain[len(m.Chain)-1]
}

// ---------------------------------------------------------------- arithmetic

// Accrued returns the exact accrued hours of ux at time t and how a 64-bit implementation must classify it:
// "" (fits), "intermediate" (a product or the coin-seconds sum does not fit), "final" (initial+earned does not fit:
// the documented legacy case that counts as 0 inside a block).
func Accrued(ux coin.UxOut, t uint64) (*big.Int, string) {
	if t < ux.Head.Time {
		return bu(ux.Body.Hours), ""
	}
	s := bu(t - ux.Head.Time)
	W, d := ux.Body.Coins/1e6, ux.Body.Coins%1e6
	ws := new(big.Int).Mul(bu(W), s)
	ds := new(big.Int).Mul(bu(d), s)
	cs := new(big.Int).Add(ws, new(big.Int).Div(ds, bu(1e6)))
	earned := new(big.Int).Div(cs, bu(3600))
	total := new(big.Int).Add(bu(ux.Body.Hours), earned)
	switch {
	case ws.Cmp(Two64) >= 0, ds.Cmp(Two64) >= 0, cs.Cmp(Two64) >= 0:
		return total, "intermediate"
	case total.Cmp(Two64) >= 0:
		return total, "final"
	}
	return total, ""
}

func OutHoursSum(txn *coin.Transaction) *big.Int {
	s := new(big.Int)
	for _, o := range txn.Out {
		s.Add(s, bu(o.Hours))
	}
	return s
}

func OutCoinsSum(txn *coin.Transaction) *big.Int {
	s := new(big.Int)
	for _, o := range txn.Out {
		s.Add(s, bu(o.Coins))
	}
	return s
}

// ---------------------------------------------------------------- transaction rules

// WellFormed is the C09 rule set (signed mode). Returns "" or the violated clause.
func WellFormed(txn *coin.Transaction) string {
	if len(txn.In) == 0 {
		return "no-inputs"
	}
	if len(txn.Out) == 0 {
		return "no-outputs"
	}
	if len(txn.Sigs) != len(txn.In) {
		return "sig-count"
	}
	if len(txn.In) > 65535 || len(txn.Out) > 65535 {
		return "too-many"
	}
	seen := map[Hash]bool{}
	for _, in := range txn.In {
		if seen[in] {
			return "dup-input"
		}
		seen[in] = true
	}
	if txn.Type != 0 {
		return "type"
	}
	type ok struct {
		a    cipher.Address
		c, h uint64
	}
	outs := map[ok]bool{}
	for _, o := range txn.Out {
		if o.Coins == 0 {
			return "zero-coin-output"
		}
		k := ok{o.Address, o.Coins, o.Hours}
		if outs[k] {
			return "dup-output"
		}
		outs[k] = true
	}
	if OutCoinsSum(txn).Cmp(Two64) >= 0 {
		return "output-coins-overflow"
	}
	b, err := txn.Serialize()
	if err != nil {
		return "unserialisable"
	}
	if uint64(txn.Length) != uint64(len(b)) {
		return "length"
	}
	if txn.HashInner() != txn.InnerHash {
		return "inner-hash"
	}
	for i, sig := range txn.Sigs {
		if sig == (cipher.Sig{}) {
			return "null-signature"
		}
		h := cipher.AddSHA256(txn.InnerHash, txn.In[i])
		if !recoverable(sig, h) {
			return "bad-signature"
		}
	}
	return ""
}

var recMemo sync.Map

func recoverable(sig cipher.Sig, h Hash) bool {
	type k struct {
		s cipher.Sig
		h Hash
	}
	if v, ok := recMemo.Load(k{sig, h}); ok {
		return v.(bool)
	}
	_, err := cipher.PubKeyFromSig(sig, h)
	recMemo.Store(k{sig, h}, err == nil)
	return err == nil
}

// sigOK memoises the trusted signature primitive (the same (address, signature, hash) triple is judged in many states).
var sigMemo sync.Map

func sigOK(a cipher.Address, sig cipher.Sig, h Hash) bool {
	type k struct {
		a cipher.Address
		s cipher.Sig
		h Hash
	}
	if v, ok := sigMemo.Load(k{a, sig, h}); ok {
		return v.(bool)
	}
	ok := cipher.VerifyAddressSignedHash(a, sig, h) == nil
	sigMemo.Store(k{a, sig, h}, ok)
	return ok
}

// hard decides the hard rules of txn against UTXO u at head. inBlock selects the block variant (output hours mod 2^64,
// per-input final-sum overflow counts 0).  Returns "" or the reason.
func hard(txn *coin.Transaction, head coin.BlockHeader, u map[Hash]coin.UxOut, inBlock bool) string {
	var ins []coin.UxOut
	for _, id := range txn.In {
		ux, ok := u[id]
		if !ok {
			return "input-not-unspent"
		}
		ins = append(ins, ux)
	}
	outH := OutHoursSum(txn)
	if !inBlock && outH.Cmp(Two64) >= 0 {
		return "output-hours-overflow"
	}
	if !inBlock {
		for _, ux := range ins {
			if _, cls := Accrued(ux, head.Time); cls != "" {
				return "input-hours-overflow"
			}
		}
	}
	if w := WellFormed(txn); w != "" {
		return "malformed:" + w
	}
	for i, ux := range ins {
		h := cipher.AddSHA256(txn.InnerHash, txn.In[i])
		if !sigOK(ux.Body.Address, txn.Sigs[i], h) {
			return "wrong-signer"
		}
	}
	inC := new(big.Int)
	for _, ux := range ins {
		inC.Add(inC, bu(ux.Body.Coins))
	}
	if inC.Cmp(Two64) >= 0 {
		return "input-coins-overflow"
	}
	if c := inC.Cmp(OutCoinsSum(txn)); c < 0 {
		return "creates-coins"
	} else if c > 0 {
		return "destroys-coins"
	}
	inH := new(big.Int)
	for _, ux := range ins {
		v, cls := Accrued(ux, head.Time)
		switch cls {
		case "intermediate":
			return "input-hours-overflow"
		case "final":
			v = new(big.Int) // documented legacy exception: counts as 0
		}
		inH.Add(inH, v)
	}
	if inH.Cmp(Two64) >= 0 {
		return "input-hours-sum-overflow"
	}
	cmpOut := outH
	if inBlock {
		cmpOut = new(big.Int).Mod(outH, Two64) // documented in-block tolerance
	}
	if inH.Cmp(cmpOut) < 0 {
		return "creates-hours"
	}
	for _, ux := range coin.CreateUnspents(head, *txn) {
		if _, ok := u[ux.Hash()]; ok {
			return "output-id-collision"
		}
	}
	return ""
}

// HardSingle: rules for a transaction outside a block, against the current head.
func (m *Model) HardSingle(txn *coin.Transaction) string {
	return hard(txn, m.Head().Head, m.UTXO, false)
}

// HardInBlock: rules for a transaction inside a block extending the current head.
func (m *Model) HardInBlock(txn *coin.Transaction) string {
	return hard(txn, m.Head().Head, m.UTXO, true)
}

// Soft decides the soft rules (only meaningful when the hard rules hold). Returns "" or the reason.
func (m *Model) Soft(txn *coin.Transaction, vp VerifyParams) string {
	head := m.Head().Head
	b, err := txn.Serialize()
	if err != nil || uint64(len(b)) > uint64(vp.MaxSize) {
		return "size"
	}
	inH := new(big.Int)
	for _, id := range txn.In {
		v, _ := Accrued(m.UTXO[id], head.Time)
		inH.Add(inH, v)
	}
	outH := OutHoursSum(txn)
	fee := new(big.Int).Sub(inH, outH)
	if fee.Sign() <= 0 {
		return "no-fee"
	}
	req := new(big.Int).Add(inH, bu(uint64(vp.Burn)-1))
	req.Div(req, bu(uint64(vp.Burn)))
	if fee.Cmp(req) < 0 {
		return "insufficient-fee"
	}
	for _, id := range txn.In {
		if m.P.Locked[m.UTXO[id].Body.Address] {
			return "locked"
		}
	}
	div := uint64(1)
	for i := uint8(0); i < 6-vp.Precision; i++ {
		div *= 10
	}
	for _, o := range txn.Out {
		if o.Coins%div != 0 {
			return "precision"
		}
	}
	return ""
}

func User(txn *coin.Transaction) string {
	for _, o := range txn.Out {
		if o.Address == (cipher.Address{}) {
			return "null-address-output"
		}
	}
	return ""
}

// Fee of a hard-valid transaction at the current head (exact).
func (m *Model) Fee(txn *coin.Transaction) *big.Int {
	inH := new(big.Int)
	for _, id := range txn.In {
		v, cls := Accrued(m.UTXO[id], m.Head().Head.Time)
		if cls == "final" {
			v = new(big.Int)
		}
		inH.Add(inH, v)
	}
	return inH.Sub(inH, OutHoursSum(txn))
}

// ---------------------------------------------------------------- pool operations

// Inject predicts InjectForeignTransaction (user=false) / InjectUserTransaction (user=true):
// class "user" / "hard" / "soft" / "" and whether the pool holds the transaction afterwards.
func (m *Model) Inject(txn coin.Transaction, user bool) (class string, reason string) {
	if user {
		if r := User(&txn); r != "" {
			return "user", r
		}
	}
	if r := m.HardSingle(&txn); r != "" {
		return "hard", r
	}
	vp := m.P.Unconfirmed
	if user {
		vp = m.P.User
	}
	soft := m.Soft(&txn, vp)
	if user && soft != "" {
		return "soft", soft
	}
	h := txn.Hash()
	m.Pool[h] = &PoolEntry{Txn: txn, Valid: soft == ""}
	if soft != "" {
		return "soft", soft
	}
	return "", ""
}

// Refresh re-checks every pool entry (hard+soft with the unconfirmed parameters); returns hashes that became valid.
func (m *Model) Refresh() []Hash {
	var now []Hash
	for h, e := range m.Pool {
		ok := m.HardSingle(&e.Txn) == "" && m.Soft(&e.Txn, m.P.Unconfirmed) == ""
		if ok && !e.Valid {
			now = append(now, h)
		}
		e.Valid = ok
	}
	SortHashes(now)
	return now
}

// RemoveInvalid drops entries violating a hard rule; returns the removed hashes.
func (m *Model) RemoveInvalid() []Hash {
	var rm []Hash
	for h, e := range m.Pool {
		if m.HardSingle(&e.Txn) != "" {
			rm = append(rm, h)
		}
	}
	for _, h := range rm {
		delete(m.Pool, h)
	}
	SortHashes(rm)
	return rm
}

// ---------------------------------------------------------------- block rules

// UxHash is the xor of the snapshot hashes of the unspent set, recomputed from scratch.
func (m *Model) UxHash() Hash {
	var x Hash
	for _, ux := range m.UTXO {
		s := ux.SnapshotHash()
		for i := range x {
			x[i] ^= s[i]
		}
	}
	return x
}

// CheckBlock decides whether sb is a valid next block for a non-arbitrating node. "" or reason.
func (m *Model) CheckBlock(sb *coin.SignedBlock) string {
	if err := cipher.VerifyPubKeySignedHash(m.P.Pubkey, sb.Sig, sb.Block.HashHeader()); err != nil {
		return "signature"
	}
	head := m.Head()
	if head == nil {
		return "no-genesis"
	}
	if sb.Block.HashHeader() == m.Chain[0].Block.HashHeader() {
		return "second-genesis"
	}
	if sb.Head.BkSeq != head.Head.BkSeq+1 {
		return "seq"
	}
	if sb.Head.Time <= head.Head.Time {
		return "time"
	}
	if sb.Head.PrevHash != head.Block.HashHeader() {
		return "prev-hash"
	}
	if sb.Body.Hash() != sb.Head.BodyHash {
		return "body-hash"
	}
	if len(sb.Body.Transactions) == 0 {
		return "no-transactions"
	}
	if len(sb.Body.Transactions) > 65535 {
		return "too-many-transactions"
	}
	spent := map[Hash]bool{}
	created := map[Hash]bool{}
	for i := range sb.Body.Transactions {
		txn := &sb.Body.Transactions[i]
		if r := m.HardInBlock(txn); r != "" {
			return "txn:" + r
		}
		if m.P.Arbitrating && OutHoursSum(txn).Cmp(Two64) >= 0 {
			return "txn:output-hours-overflow"
		}
		for _, in := range txn.In {
			if spent[in] {
				return "double-spend-in-block"
			}
			spent[in] = true
		}
		for _, o := range txn.Out {
			ub := coin.UxBody{SrcTransaction: txn.Hash(), Address: o.Address, Coins: o.Coins, Hours: o.Hours}
			id := ub.Hash()
			if created[id] {
				return "duplicate-created-output"
			}
			created[id] = true
		}
	}
	if sb.Head.UxHash != m.UxHash() {
		return "ux-hash"
	}
	return ""
}

// Apply appends a block that CheckBlock accepted (or the genesis block).
func (m *Model) Apply(sb coin.SignedBlock) {
	for _, txn := range sb.Body.Transactions {
		th := txn.Hash()
		for _, in := range txn.In {
			if c, ok := m.Outs[in]; ok {
				c.Spent, c.SpentSeq, c.SpentTxn = true, sb.Head.BkSeq, th
				c.NSpent++
			}
			delete(m.UTXO, in)
		}
	}
	for _, txn := range sb.Body.Transactions {
		for _, ux := range coin.CreateUnspents(sb.Head, txn) {
			id := ux.Hash()
			m.UTXO[id] = ux
			m.Outs[id] = &Created{Out: ux}
			m.Order = append(m.Order, id)
		}
		delete(m.Pool, txn.Hash())
	}
	m.Chain = append(m.Chain, sb)
}

// ---------------------------------------------------------------- block creation (C05 reference pipeline)

// FeePerKB = floor(fee*1024/size), the documented priority (0 on overflow of fee*1024 — cannot occur for conserved hours < 2^54).
func FeePerKB(fee *big.Int, size int) *big.Int {
	v := new(big.Int).Mul(fee, big.NewInt(1024))
	return v.Div(v, big.NewInt(int64(size)))
}

type Candidate struct {
	Txn   coin.Transaction
	Hash  Hash
	Size  int
	Prio  *big.Int
	Elig  bool // satisfies hard + soft(CreateBlock) at the head
	Class string
}

// Candidates lists the pool in block order: priority descending, hash ascending; eligibility flagged.
func (m *Model) Candidates() []Candidate {
	var cs []Candidate
	for h, e := range m.Pool {
		c := Candidate{Txn: e.Txn, Hash: h}
		b, _ := e.Txn.Serialize()
		c.Size = len(b)
		if r := m.HardSingle(&e.Txn); r != "" {
			c.Class = "hard:" + r
		} else if r := m.Soft(&e.Txn, m.P.CreateBlock); r != "" {
			c.Class = "soft:" + r
		} else {
			c.Elig = true
			c.Prio = FeePerKB(m.Fee(&e.Txn), c.Size)
		}
		cs = append(cs, c)
	}
	sort.Slice(cs, func(i, j int) bool {
		if cs[i].Elig != cs[j].Elig {
			return cs[i].Elig
		}
		if cs[i].Elig {
			if c := cs[i].Prio.Cmp(cs[j].Prio); c != 0 {
				return c > 0
			}
		}
		return bytes.Compare(cs[i].Hash[:], cs[j].Hash[:]) < 0
	})
	return cs
}

// ExpectedSelection is the documented pipeline: filter → sort → size prefix → arbitration.
// Arbitration follows the statement ("the included one is the one that comes first in that order"): a transaction is left out
// exactly when it conflicts with an EARLIER-ordered eligible transaction of the size prefix — whether or not that earlier one is
// itself included.  (For a chain of conflicts P1–M–P2 the statement's two clauses cannot both hold for the pair (M, P2); the
// reading chosen here is the one under which every included transaction precedes all eligible transactions it conflicts with.)
func (m *Model) ExpectedSelection() []Candidate {
	var out []Candidate
	total := 0
	for _, c := range m.Candidates() {
		if !c.Elig {
			continue
		}
		if total+c.Size > int(m.P.MaxBlockSize) {
			break
		}
		total += c.Size
		out = append(out, c)
	}
	var sel []Candidate
	for i, c := range out {
		conflict := false
		for _, e := range out[:i] {
			for _, a := range c.Txn.In {
				for _, b := range e.Txn.In {
					if a == b {
						conflict = true
					}
				}
			}
		}
		if !conflict {
			sel = append(sel, c)
		}
	}
	return sel
}

// ---------------------------------------------------------------- helpers

func SortHashes(hs []Hash) {
	sort.Slice(hs, func(i, j int) bool { return bytes.Compare(hs[i][:], hs[j][:]) < 0 })
}

// TotalCoins is the exact coin volume of the unspent set.
func (m *Model) TotalCoins() *big.Int {
	s := new(big.Int)
	for _, ux := range m.UTXO {
		s.Add(s, bu(ux.Body.Coins))
	}
	return s
}

// OutputsOf returns the unspent outputs of addr in creation order.
func (m *Model) OutputsOf(addr cipher.Address) []coin.UxOut {
	var out []coin.UxOut
	for _, id := range m.Order {
		if ux, ok := m.UTXO[id]; ok && ux.Body.Address == addr {
			out = append(out, ux)
		}
	}
	return out
}
