// Package wsvc is the reference bookkeeping for the wallet-service exploration (C19): which wallets
// the service is supposed to hold after a history of SUCCESSFUL operations, which of them are temporary,
// unloaded, encrypted (and with which password), and which wallet file names are expected on disk.
// It is written from the property statement and the documented operation contracts; it does not import
// skycoin.  It never predicts file contents — those are compared differentially (memory vs. file vs. a
// freshly started service).
package wsvc

import (
	"fmt"
	"sort"
	"strings"
)

// Slot is one wallet that was successfully created during the history, in creation order.
type Slot struct {
	Name     string // file name / wallet id as reported by the service (not part of the canonical form)
	Type     string // deterministic | bip44 | collection | xpub
	Seed     int    // index of the seed / xpub in the fixture; -1 for collection wallets
	Temp     bool
	Loaded   bool
	Password string // "" = not encrypted
	OnDisk   bool   // the file Name on disk is the file of THIS slot
}

type Tracker struct {
	Slots []Slot
}

func (t *Tracker) Clone() *Tracker { return &Tracker{Slots: append([]Slot(nil), t.Slots...)} }

// Created records a successful CreateWallet.
func (t *Tracker) Created(name, typ string, seed int, temp bool, password string) int {
	if !temp {
		// a non-temporary wallet is saved under its name: a file of an unloaded wallet with that name is replaced
		for i := range t.Slots {
			if t.Slots[i].Name == name && t.Slots[i].OnDisk {
				t.Slots[i].OnDisk = false
			}
		}
	}
	t.Slots = append(t.Slots, Slot{Name: name, Type: typ, Seed: seed, Temp: temp, Loaded: true, Password: password, OnDisk: !temp})
	return len(t.Slots) - 1
}

func (t *Tracker) Unloaded(i int)               { t.Slots[i].Loaded = false }
func (t *Tracker) SetPassword(i int, pw string) { t.Slots[i].Password = pw }
func (t *Tracker) Encrypted(i int) bool         { return t.Slots[i].Password != "" }
func (t *Tracker) LoadedSlots() (out []int)     { return t.filter(func(s Slot) bool { return s.Loaded }) }
func (t *Tracker) UnloadedOnDisk() (out []int) {
	return t.filter(func(s Slot) bool { return !s.Loaded && s.OnDisk })
}
func (t *Tracker) filter(f func(Slot) bool) (out []int) {
	for i, s := range t.Slots {
		if f(s) {
			out = append(out, i)
		}
	}
	return
}

// SlotOf returns the loaded slot with that wallet id, or -1.
func (t *Tracker) SlotOf(name string) int {
	for i := len(t.Slots) - 1; i >= 0; i-- {
		if t.Slots[i].Name == name && t.Slots[i].Loaded {
			return i
		}
	}
	return -1
}

// DiskOwner returns the slot whose file is expected under that name, or -1.
func (t *Tracker) DiskOwner(name string) int {
	for i := len(t.Slots) - 1; i >= 0; i-- {
		if t.Slots[i].Name == name && t.Slots[i].OnDisk {
			return i
		}
	}
	return -1
}

// UsedSeeds: number of distinct seed indexes used so far (seeds are handed out in order, so this is
// also the index of the next unused seed).
func (t *Tracker) UsedSeeds() int {
	n := 0
	for _, s := range t.Slots {
		if s.Seed+1 > n {
			n = s.Seed + 1
		}
	}
	return n
}

// DuplicateOnDisk reports two slots with files on disk that were generated from the same (type, seed):
// the start-up check of the service refuses such a directory.  unloaded tells whether at least one of the
// two is an unloaded wallet.
func (t *Tracker) DuplicateOnDisk() (dup bool, unloaded bool) {
	for i, a := range t.Slots {
		for j, b := range t.Slots {
			if i < j && a.OnDisk && b.OnDisk && a.Seed >= 0 && a.Type == b.Type && a.Seed == b.Seed {
				dup = true
				if !a.Loaded || !b.Loaded {
					unloaded = true
				}
			}
		}
	}
	return
}

// Canon is the canonical text of the bookkeeping (file names replaced by slot numbers).
func (t *Tracker) Canon() string {
	var b strings.Builder
	for i, s := range t.Slots {
		fmt.Fprintf(&b, "slot%d{%s seed=%d temp=%v loaded=%v pw=%q disk=%v name=%s}\n", i, s.Type, s.Seed, s.Temp, s.Loaded, s.Password, s.OnDisk, t.CanonName(s.Name))
	}
	return b.String()
}

// CanonName maps a wallet file name to the number of the FIRST slot that used it.
func (t *Tracker) CanonName(name string) string {
	for i, s := range t.Slots {
		if s.Name == name {
			return fmt.Sprintf("<name%d>", i)
		}
	}
	return name
}

// CanonText replaces every known wallet file name inside text by its canonical name.
func (t *Tracker) CanonText(text string) string {
	type kv struct{ from, to string }
	var reps []kv
	seen := map[string]bool{}
	for _, s := range t.Slots {
		if s.Name != "" && !seen[s.Name] {
			seen[s.Name] = true
			reps = append(reps, kv{s.Name, t.CanonName(s.Name)})
		}
	}
	sort.Slice(reps, func(i, j int) bool { return len(reps[i].from) > len(reps[j].from) })
	for _, r := range reps {
		text = strings.ReplaceAll(text, r.from, r.to)
	}
	return text
}
