// Package base58 is the big-integer definition of Bitcoin base58 and of the skycoin address text format.
// It imports nothing from skycoin.
//
// Definition: a byte string b = 0^z || m (m empty or starting with a non-zero byte) is written as
// '1'^z || digits58(int(m)), where digits58 is the minimal base-58 representation of the big-endian
// integer (empty for m empty).  This is a bijection between byte strings and strings over the alphabet.
package base58

import (
	"crypto/sha256"
	"errors"
	"math/big"
)

const Alphabet = "123456789ABCDEFGHJKLMNPQRSTUVWXYZabcdefghijkmnopqrstuvwxyz"

var radix = big.NewInt(58)

// Encode implements the definition above.
func Encode(b []byte) string {
	z := 0
	for z < len(b) && b[z] == 0 {
		z++
	}
	n := new(big.Int).SetBytes(b[z:])
	var digits []byte
	m := new(big.Int)
	for n.Sign() > 0 {
		n.DivMod(n, radix, m)
		digits = append(digits, Alphabet[m.Int64()])
	}
	out := make([]byte, 0, z+len(digits))
	for i := 0; i < z; i++ {
		out = append(out, '1')
	}
	for i := len(digits) - 1; i >= 0; i-- {
		out = append(out, digits[i])
	}
	return string(out)
}

var ErrChar = errors.New("character outside the base58 alphabet")

func digit(c byte) int {
	for i := 0; i < len(Alphabet); i++ {
		if Alphabet[i] == c {
			return i
		}
	}
	return -1
}

// Decode is the inverse: every BYTE of s must be an alphabet character (so any non-ASCII text fails).
// The empty string decodes to the empty byte string.
func Decode(s string) ([]byte, error) {
	for i := 0; i < len(s); i++ {
		if digit(s[i]) < 0 {
			return nil, ErrChar
		}
	}
	z := 0
	for z < len(s) && s[z] == '1' {
		z++
	}
	n := new(big.Int)
	for i := z; i < len(s); i++ {
		n.Mul(n, radix)
		n.Add(n, big.NewInt(int64(digit(s[i]))))
	}
	out := make([]byte, z)
	out = append(out, n.Bytes()...)
	return out, nil
}

// Address is the decoded content of a skycoin address.
type Address struct {
	Key     [20]byte
	Version byte
}

// Reasons why a text is not an address.
var (
	ErrAddrLength   = errors.New("decoded length is not 25")
	ErrAddrChecksum = errors.New("checksum mismatch")
	ErrAddrVersion  = errors.New("version is not 0")
)

// AddressChecksum is the first 4 bytes of SHA256(key || version).
func AddressChecksum(key [20]byte, version byte) [4]byte {
	h := sha256.Sum256(append(append([]byte{}, key[:]...), version))
	var c [4]byte
	copy(c[:], h[:4])
	return c
}

// AddressBytes is key(20) || version(1) || checksum(4).
func AddressBytes(key [20]byte, version byte) []byte {
	c := AddressChecksum(key, version)
	out := append(append([]byte{}, key[:]...), version)
	return append(out, c[:]...)
}

// AddressString is the canonical text of an address.
func AddressString(key [20]byte, version byte) string { return Encode(AddressBytes(key, version)) }

// ParseAddressBytes: 25 bytes, correct checksum, version 0.
func ParseAddressBytes(b []byte) (Address, error) {
	if len(b) != 25 {
		return Address{}, ErrAddrLength
	}
	var a Address
	copy(a.Key[:], b[:20])
	a.Version = b[20]
	c := AddressChecksum(a.Key, a.Version)
	if string(c[:]) != string(b[21:25]) {
		return Address{}, ErrAddrChecksum
	}
	if a.Version != 0 {
		return Address{}, ErrAddrVersion
	}
	return a, nil
}

// ParseAddress decodes address text: it must be the base58 text of 25 bytes key||version||checksum with
// a correct checksum and version 0.
func ParseAddress(s string) (Address, error) {
	b, err := Decode(s)
	if err != nil {
		return Address{}, err
	}
	return ParseAddressBytes(b)
}
