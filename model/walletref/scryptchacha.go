package walletref

import (
	"encoding/base64"
	"encoding/binary"
	"encoding/json"
	"errors"

	"golang.org/x/crypto/chacha20poly1305"
	"golang.org/x/crypto/scrypt"
)

// Reference for the scrypt-chacha20poly1305 wallet cipher, from the format comment above
// encrypt.ScryptChacha20poly1305.Encrypt:
//
//	meta = JSON {"n","r","p","keyLen","salt","nonce"}        (salt/nonce base64 by encoding/json)
//	ad   = len16le(meta) || meta
//	raw  = ad || ChaCha20-Poly1305.Seal(key = scrypt(password, salt, n, r, p, keyLen), nonce, plaintext, ad)
//	text = base64(raw)
//
// built on golang.org/x/crypto (not on the copies vendored into skycoin's src/cipher).

// ScryptMeta mirrors the documented metadata object.
type ScryptMeta struct {
	N      int    `json:"n"`
	R      int    `json:"r"`
	P      int    `json:"p"`
	KeyLen int    `json:"keyLen"`
	Salt   []byte `json:"salt"`
	Nonce  []byte `json:"nonce"`
}

// ScryptSealRaw builds a valid raw ciphertext with caller-chosen salt and nonce.
func ScryptSealRaw(plain, password []byte, m ScryptMeta) ([]byte, error) {
	key, err := scrypt.Key(password, m.Salt, m.N, m.R, m.P, m.KeyLen)
	if err != nil {
		return nil, err
	}
	aead, err := chacha20poly1305.New(key)
	if err != nil {
		return nil, err
	}
	if len(m.Nonce) != chacha20poly1305.NonceSize {
		return nil, errors.New("nonce size")
	}
	ms, err := json.Marshal(m)
	if err != nil {
		return nil, err
	}
	ad := make([]byte, 2, 2+len(ms))
	binary.LittleEndian.PutUint16(ad, uint16(len(ms)))
	ad = append(ad, ms...)
	return append(ad, aead.Seal(nil, m.Nonce, plain, ad)...), nil
}

// ScryptSplit splits a well-formed raw ciphertext into the metadata object, the metadata bytes and the sealed part.
func ScryptSplit(raw []byte) (m ScryptMeta, meta, sealed []byte, err error) {
	if len(raw) < 2 {
		return m, nil, nil, errors.New("short")
	}
	l := int(binary.LittleEndian.Uint16(raw))
	if 2+l > len(raw) {
		return m, nil, nil, errors.New("metadata length")
	}
	meta = raw[2 : 2+l]
	if err = json.Unmarshal(meta, &m); err != nil {
		return m, nil, nil, err
	}
	return m, meta, raw[2+l:], nil
}

// ScryptOpenRaw is the reference decryption with every parameter validated before use.
func ScryptOpenRaw(raw, password []byte) ([]byte, error) {
	if len(password) == 0 {
		return nil, errors.New("missing password")
	}
	m, meta, sealed, err := ScryptSplit(raw)
	if err != nil {
		return nil, err
	}
	if m.N <= 1 || m.N&(m.N-1) != 0 || m.N > 1<<20 || m.R <= 0 || m.P <= 0 || m.R > 1<<10 || m.P > 1<<10 ||
		m.KeyLen != chacha20poly1305.KeySize || len(m.Nonce) != chacha20poly1305.NonceSize {
		return nil, errors.New("invalid parameters")
	}
	key, err := scrypt.Key(password, m.Salt, m.N, m.R, m.P, m.KeyLen)
	if err != nil {
		return nil, err
	}
	aead, err := chacha20poly1305.New(key)
	if err != nil {
		return nil, err
	}
	return aead.Open(nil, m.Nonce, sealed, raw[:2+len(meta)])
}

// B64 is the standard base64 text form used by both ciphers.
func B64(raw []byte) []byte {
	return []byte(base64.StdEncoding.EncodeToString(raw))
}
