// Package walletref is the reference model of the wallet group (C13, C17, C18).
//
// It re-derives what the skycoin wallet code is supposed to compute from the *documentation* only
// (SEC2 curve parameters, BIP32/BIP39/BIP44, the comment above cipher.GenerateDeterministicKeyPairsSeed /
// secp256k1.DeterministicKeyPairIterator, the format comment above encrypt.Sha256Xor.Encrypt) with
// math/big and the Go standard library.  It imports nothing from github.com/skycoin/skycoin.
package walletref

import (
	"crypto/sha256"
	"errors"
	"math/big"
)

// secp256k1 domain parameters (SEC 2, section 2.4.1).
var (
	P, _  = new(big.Int).SetString("FFFFFFFFFFFFFFFFFFFFFFFFFFFFFFFFFFFFFFFFFFFFFFFFFFFFFFFEFFFFFC2F", 16)
	N, _  = new(big.Int).SetString("FFFFFFFFFFFFFFFFFFFFFFFFFFFFFFFEBAAEDCE6AF48A03BBFD25E8CD0364141", 16)
	Gx, _ = new(big.Int).SetString("79BE667EF9DCBBAC55A06295CE870B07029BFCDB2DCE28D959F2815B16F81798", 16)
	Gy, _ = new(big.Int).SetString("483ADA7726A3C4655DA4FBFC0E1108A8FD17B448A68554199C47D08FFB10D4B8", 16)
)

// Point is an affine point; Inf marks the point at infinity.
type Point struct {
	X, Y *big.Int
	Inf  bool
}

var G = Point{X: Gx, Y: Gy}

func mod(x *big.Int) *big.Int { return x.Mod(x, P) }

// Add returns a+b on the curve y^2 = x^3 + 7.
func Add(a, b Point) Point {
	if a.Inf {
		return b
	}
	if b.Inf {
		return a
	}
	var l *big.Int
	if a.X.Cmp(b.X) == 0 {
		if a.Y.Cmp(b.Y) != 0 || a.Y.Sign() == 0 {
			return Point{Inf: true}
		}
		// tangent: 3x^2 / 2y
		num := new(big.Int).Mul(a.X, a.X)
		num.Mul(num, big.NewInt(3))
		den := new(big.Int).Lsh(a.Y, 1)
		den.ModInverse(mod(den), P)
		l = mod(num.Mul(num, den))
	} else {
		num := new(big.Int).Sub(b.Y, a.Y)
		den := new(big.Int).Sub(b.X, a.X)
		den.ModInverse(mod(den), P)
		l = mod(num.Mul(mod(num), den))
	}
	x := new(big.Int).Mul(l, l)
	x.Sub(x, a.X)
	x.Sub(x, b.X)
	mod(x)
	y := new(big.Int).Sub(a.X, x)
	y.Mul(y, l)
	y.Sub(y, a.Y)
	mod(y)
	return Point{X: x, Y: y}
}

// Mul returns k*p (double and add, most significant bit first).
func Mul(p Point, k *big.Int) Point {
	r := Point{Inf: true}
	for i := k.BitLen() - 1; i >= 0; i-- {
		r = Add(r, r)
		if k.Bit(i) == 1 {
			r = Add(r, p)
		}
	}
	return r
}

// Compress serialises a point as 02/03 || X.
func Compress(p Point) []byte {
	out := make([]byte, 33)
	out[0] = 2 + byte(p.Y.Bit(0))
	p.X.FillBytes(out[1:])
	return out
}

// Decompress parses 02/03 || X.
func Decompress(b []byte) (Point, error) {
	if len(b) != 33 || (b[0] != 2 && b[0] != 3) {
		return Point{}, errors.New("bad compressed point")
	}
	x := new(big.Int).SetBytes(b[1:])
	if x.Cmp(P) >= 0 {
		return Point{}, errors.New("x out of range")
	}
	return liftX(x, b[0]&1)
}

func liftX(x *big.Int, odd byte) (Point, error) {
	y2 := new(big.Int).Mul(x, x)
	y2.Mul(y2, x)
	y2.Add(y2, big.NewInt(7))
	mod(y2)
	// p = 3 mod 4: sqrt = y2^((p+1)/4)
	e := new(big.Int).Add(P, big.NewInt(1))
	e.Rsh(e, 2)
	y := new(big.Int).Exp(y2, e, P)
	if new(big.Int).Exp(y, big.NewInt(2), P).Cmp(y2) != 0 {
		return Point{}, errors.New("not on curve")
	}
	if byte(y.Bit(0)) != odd {
		y.Sub(P, y)
	}
	return Point{X: x, Y: y}, nil
}

// ValidSec says whether 0 < k < n.
func ValidSec(sec []byte) bool {
	k := new(big.Int).SetBytes(sec)
	return len(sec) == 32 && k.Sign() > 0 && k.Cmp(N) < 0
}

// PubFromSec returns the compressed public key of a 32-byte secret key.
func PubFromSec(sec []byte) []byte {
	return Compress(Mul(G, new(big.Int).SetBytes(sec)))
}

// ECDH returns the compressed point sec*pub.
func ECDH(pub, sec []byte) ([]byte, error) {
	p, err := Decompress(pub)
	if err != nil {
		return nil, err
	}
	return Compress(Mul(p, new(big.Int).SetBytes(sec))), nil
}

// RecoverCompact recovers the compressed public key from a skycoin compact signature
// r(32) || s(32) || recid(1) over the 32-byte message hash (SEC 1, 4.1.6).
func RecoverCompact(sig []byte, hash []byte) ([]byte, error) {
	if len(sig) != 65 || len(hash) != 32 {
		return nil, errors.New("bad lengths")
	}
	r := new(big.Int).SetBytes(sig[:32])
	s := new(big.Int).SetBytes(sig[32:64])
	recid := sig[64]
	if recid > 3 {
		return nil, errors.New("bad recovery id")
	}
	if r.Sign() == 0 || r.Cmp(N) >= 0 || s.Sign() == 0 || s.Cmp(N) >= 0 {
		return nil, errors.New("r or s out of range")
	}
	x := new(big.Int).Set(r)
	if recid&2 != 0 {
		x.Add(x, N)
		if x.Cmp(P) >= 0 {
			return nil, errors.New("x overflow")
		}
	}
	R, err := liftX(x, recid&1)
	if err != nil {
		return nil, err
	}
	z := new(big.Int).SetBytes(hash)
	rinv := new(big.Int).ModInverse(r, N)
	// Q = r^-1 (s R - z G)
	u1 := new(big.Int).Mul(z, rinv)
	u1.Neg(u1)
	u1.Mod(u1, N)
	u2 := new(big.Int).Mul(s, rinv)
	u2.Mod(u2, N)
	Q := Add(Mul(G, u1), Mul(R, u2))
	if Q.Inf {
		return nil, errors.New("recovered infinity")
	}
	return Compress(Q), nil
}

// VerifyECDSA is the textbook verification of (r, s) over hash for the compressed public key.
func VerifyECDSA(pub, sig, hash []byte) bool {
	Q, err := Decompress(pub)
	if err != nil || len(sig) < 64 {
		return false
	}
	r := new(big.Int).SetBytes(sig[:32])
	s := new(big.Int).SetBytes(sig[32:64])
	if r.Sign() == 0 || r.Cmp(N) >= 0 || s.Sign() == 0 || s.Cmp(N) >= 0 {
		return false
	}
	z := new(big.Int).SetBytes(hash)
	w := new(big.Int).ModInverse(s, N)
	u1 := new(big.Int).Mul(z, w)
	u1.Mod(u1, N)
	u2 := new(big.Int).Mul(r, w)
	u2.Mod(u2, N)
	X := Add(Mul(G, u1), Mul(Q, u2))
	if X.Inf {
		return false
	}
	v := new(big.Int).Mod(X.X, N)
	return v.Cmp(r) == 0
}

func sha(b ...[]byte) []byte {
	h := sha256.New()
	for _, x := range b {
		h.Write(x)
	}
	return h.Sum(nil)
}

// Sha256 of the concatenation of the arguments.
func Sha256(b ...[]byte) []byte { return sha(b...) }
