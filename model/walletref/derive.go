package walletref

import (
	"crypto/hmac"
	"crypto/sha512"
	"encoding/binary"
	"errors"
	"math/big"
	"sync"

	"golang.org/x/crypto/pbkdf2"
	"golang.org/x/crypto/ripemd160"
)

// ---------- skycoin address (cipher/address.go header comment) ----------

const b58 = "123456789ABCDEFGHJKLMNPQRSTUVWXYZabcdefghijkmnopqrstuvwxyz"

// Base58 encodes with the bitcoin alphabet (leading zero bytes become '1').
func Base58(b []byte) string {
	x := new(big.Int).SetBytes(b)
	var out []byte
	m := new(big.Int)
	r := big.NewInt(58)
	for x.Sign() > 0 {
		x.DivMod(x, r, m)
		out = append(out, b58[m.Int64()])
	}
	for _, c := range b {
		if c != 0 {
			break
		}
		out = append(out, '1')
	}
	for i, j := 0, len(out)-1; i < j; i, j = i+1, j-1 {
		out[i], out[j] = out[j], out[i]
	}
	return string(out)
}

// Address returns the base58 skycoin address of a compressed public key:
// key = ripemd160(sha256(sha256(pub))), bytes = key || version(0) || sha256(key||version)[:4].
func Address(pub []byte) string {
	h := ripemd160.New()
	h.Write(sha(sha(pub)))
	key := h.Sum(nil)
	body := append(key, 0)
	body = append(body, sha(body)[:4]...)
	return Base58(body)
}

// ---------- original skycoin deterministic chain ----------

// step: "generates deterministic keypair with weak SHA256 hash of seed" — hash until the value is a valid secret key.
func step(seed []byte) (pub, sec []byte) {
	for {
		seed = sha(seed)
		if ValidSec(seed) {
			return PubFromSec(seed), seed
		}
	}
}

// Secp256k1Hash: "double SHA256, salted with ECDH operation in curve".
func Secp256k1Hash(seed []byte) []byte {
	if v, ok := hashCache.Load(string(seed)); ok {
		return append([]byte{}, v.([]byte)...)
	}
	out := secp256k1Hash(seed)
	hashCache.Store(string(seed), append([]byte{}, out...))
	return out
}

var hashCache sync.Map // pure function memo (the big-integer curve arithmetic is slow)

func secp256k1Hash(seed []byte) []byte {
	hash := sha(seed)
	_, sec := step(hash)
	pub, _ := step(sha(hash))
	ecdh, err := ECDH(pub, sec)
	if err != nil {
		panic(err)
	}
	return sha(hash, ecdh)
}

// DetIterator: seed1 = Secp256k1Hash(seedIn); keypair = step(sha256(seedIn || seed1)); returns (seed1, pub, sec).
func DetIterator(seedIn []byte) (next, pub, sec []byte) {
	seed1 := Secp256k1Hash(seedIn)
	pub, sec = step(sha(seedIn, seed1))
	return seed1, pub, sec
}

// DetEntry is one derived entry of a chain.
type DetEntry struct {
	Address string
	Pub     []byte
	Sec     []byte
	// LastSeed is the chain seed after this entry was derived (deterministic wallets only).
	LastSeed []byte
}

// DetChain derives the first n entries of the deterministic wallet chain of a seed string.
func DetChain(seed string, n int) []DetEntry {
	s := []byte(seed)
	var out []DetEntry
	for i := 0; i < n; i++ {
		next, pub, sec := DetIterator(s)
		out = append(out, DetEntry{Address: Address(pub), Pub: pub, Sec: sec, LastSeed: next})
		s = next
	}
	return out
}

// ---------- BIP39 seed, BIP32 derivation, BIP44 path ----------

// Bip39Seed = PBKDF2-HMAC-SHA512(mnemonic, "mnemonic"+passphrase, 2048, 64).
func Bip39Seed(mnemonic, passphrase string) []byte {
	return pbkdf2.Key([]byte(mnemonic), []byte("mnemonic"+passphrase), 2048, 64, sha512.New)
}

// XKey is a BIP32 extended key (private when Sec != nil).
type XKey struct {
	Sec   []byte // 32 bytes or nil
	Pub   []byte // 33 bytes
	Chain []byte // 32 bytes
}

const Hardened = 0x80000000

// Master derives the master key: I = HMAC-SHA512("Bitcoin seed", seed).
func Master(seed []byte) (XKey, error) {
	m := hmac.New(sha512.New, []byte("Bitcoin seed"))
	m.Write(seed)
	I := m.Sum(nil)
	if !ValidSec(I[:32]) {
		return XKey{}, errors.New("invalid master key")
	}
	return XKey{Sec: I[:32], Pub: PubFromSec(I[:32]), Chain: I[32:]}, nil
}

// Child implements CKDpriv (when k.Sec != nil) or CKDpub.
func (k XKey) Child(i uint32) (XKey, error) {
	var data []byte
	if i >= Hardened {
		if k.Sec == nil {
			return XKey{}, errors.New("hardened child of a public key")
		}
		data = append([]byte{0}, k.Sec...)
	} else {
		data = append([]byte{}, k.Pub...)
	}
	var idx [4]byte
	binary.BigEndian.PutUint32(idx[:], i)
	data = append(data, idx[:]...)
	m := hmac.New(sha512.New, k.Chain)
	m.Write(data)
	I := m.Sum(nil)
	il := new(big.Int).SetBytes(I[:32])
	if il.Cmp(N) >= 0 {
		return XKey{}, errors.New("impossible child")
	}
	if k.Sec != nil {
		ki := new(big.Int).Add(il, new(big.Int).SetBytes(k.Sec))
		ki.Mod(ki, N)
		if ki.Sign() == 0 {
			return XKey{}, errors.New("impossible child")
		}
		sec := make([]byte, 32)
		ki.FillBytes(sec)
		return XKey{Sec: sec, Pub: PubFromSec(sec), Chain: I[32:]}, nil
	}
	par, err := Decompress(k.Pub)
	if err != nil {
		return XKey{}, err
	}
	q := Add(Mul(G, il), par)
	if q.Inf {
		return XKey{}, errors.New("impossible child")
	}
	return XKey{Pub: Compress(q), Chain: I[32:]}, nil
}

// Neuter drops the private part.
func (k XKey) Neuter() XKey { return XKey{Pub: k.Pub, Chain: k.Chain} }

// Bip44Chain derives entries 0..n-1 of m/44'/coin'/account'/chain/i.  With watchOnly the chain key
// is neutered first and the children are derived with CKDpub (what an xpub wallet must do).
func Bip44Chain(mnemonic, passphrase string, coin, account, chain uint32, n int, watchOnly bool) ([]DetEntry, error) {
	k, err := Master(Bip39Seed(mnemonic, passphrase))
	if err != nil {
		return nil, err
	}
	for _, i := range []uint32{44 + Hardened, coin + Hardened, account + Hardened, chain} {
		if k, err = k.Child(i); err != nil {
			return nil, err
		}
	}
	if watchOnly {
		k = k.Neuter()
	}
	var out []DetEntry
	for i := 0; i < n; i++ {
		c, err := k.Child(uint32(i))
		if err != nil {
			return nil, err
		}
		out = append(out, DetEntry{Address: Address(c.Pub), Pub: c.Pub, Sec: c.Sec})
	}
	return out, nil
}
