package walletref

import (
	"bytes"
	"encoding/base64"
	"encoding/binary"
	"errors"
)

// Reference for the sha256-xor wallet cipher, transcribed from the format comment above
// encrypt.Sha256Xor.Encrypt:
//
//	inner  = sha256(body) || body          body = len32le(data) || data || zero padding to a multiple of 32
//	block_i = inner[32i:32i+32] XOR K_i     K_i = sha256( Secp256k1Hash(password) || sha256( varint(i) zero-padded to 32 || sha256(nonce) ) )
//	raw    = sha256(nonce || blocks) || nonce(32) || blocks
//	text   = base64(raw)

// XorKeyBlock returns K_i.
func XorKeyBlock(password []byte, i int, nonce []byte) []byte {
	idx := make([]byte, 32)
	binary.PutVarint(idx, int64(i))
	return sha(Secp256k1Hash(password), sha(idx, sha(nonce)))
}

func xorBlocks(password, nonce, data []byte) []byte {
	out := make([]byte, len(data))
	for off := 0; off < len(data); off += 32 {
		k := XorKeyBlock(password, off/32, nonce)
		for j := 0; j < 32 && off+j < len(data); j++ {
			out[off+j] = data[off+j] ^ k[j]
		}
	}
	return out
}

// XorBody builds body = len32le(length) || data || zero padding (the length field may lie).
func XorBody(data []byte, length uint32) []byte {
	b := make([]byte, 4, 4+len(data)+32)
	binary.LittleEndian.PutUint32(b, length)
	b = append(b, data...)
	if m := len(b) % 32; m != 0 {
		b = append(b, make([]byte, 32-m)...)
	}
	return b
}

// XorSeal encrypts an arbitrary inner byte string (normally sha256(body)||body) under nonce and
// prefixes the checksum.  inner need not be a multiple of 32 and nonce need not be 32 bytes long:
// this is how malformed-but-checksummed ciphertexts are manufactured.
func XorSeal(password, nonce, inner []byte) []byte {
	enc := xorBlocks(password, nonce, inner)
	rest := append(append([]byte{}, nonce...), enc...)
	return append(sha(rest), rest...)
}

// XorEncryptRaw is the documented encryption with a caller-supplied nonce (raw bytes, before base64).
func XorEncryptRaw(data, password, nonce []byte) []byte {
	body := XorBody(data, uint32(len(data)))
	return XorSeal(password, nonce, append(sha(body), body...))
}

// XorVerdict classifies raw bytes (after base64 decoding) for a password according to the format.
//
//	strictOK  — the bytes are exactly what the documented Encrypt produces for Plain (canonical)
//	lenientOK — all integrity fields verify (checksum, block structure, inner hash, length ≤ available) but
//	            the layout is not canonical (non-zero padding, surplus padding blocks); an implementation may accept or reject
//	neither   — not a valid encryption of anything under this password: Decrypt must return an error
type XorVerdict struct {
	StrictOK  bool
	LenientOK bool
	Plain     []byte
	Why       string
}

func XorClassify(raw, password []byte) XorVerdict {
	if len(password) == 0 {
		return XorVerdict{Why: "missing password"}
	}
	if len(raw) < 32 {
		return XorVerdict{Why: "shorter than a checksum"}
	}
	if !bytes.Equal(raw[:32], sha(raw[32:])) {
		return XorVerdict{Why: "checksum mismatch"}
	}
	rest := raw[32:]
	if len(rest) < 32 {
		return XorVerdict{Why: "nonce shorter than 32 bytes"}
	}
	nonce, blocks := rest[:32], rest[32:]
	if len(blocks)%32 != 0 {
		return XorVerdict{Why: "blocks not a multiple of 32 bytes"}
	}
	if len(blocks) < 64 {
		return XorVerdict{Why: "fewer than two blocks (hash + length)"}
	}
	inner := xorBlocks(password, nonce, blocks)
	if !bytes.Equal(inner[:32], sha(inner[32:])) {
		return XorVerdict{Why: "inner hash mismatch (wrong password or corrupt)"}
	}
	body := inner[32:]
	l := binary.LittleEndian.Uint32(body[:4])
	if uint64(l) > uint64(len(body)-4) {
		return XorVerdict{Why: "length field exceeds the data"}
	}
	plain := body[4 : 4+l]
	v := XorVerdict{LenientOK: true, Plain: plain}
	if bytes.Equal(body, XorBody(plain, l)) {
		v.StrictOK = true
	} else {
		v.Why = "non-canonical padding"
	}
	return v
}

// XorClassifyText does the base64 step first (standard alphabet, padding required; the Go decoder
// skips CR and LF, which is not part of the alphabets used here).
func XorClassifyText(text, password []byte) XorVerdict {
	raw, err := base64.StdEncoding.DecodeString(string(text))
	if err != nil {
		return XorVerdict{Why: "invalid base64"}
	}
	return XorClassify(raw, password)
}

var ErrModel = errors.New("walletref")
