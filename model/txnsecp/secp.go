// Package txnsecp is a small, boring reference implementation of secp256k1 ECDSA with public-key recovery,
// written with math/big only (textbook formulas, Jacobian coordinates for speed).  It is the independent
// oracle / input constructor for the txn group (C09, C10) and deliberately imports nothing from skycoin.
package txnsecp

import (
	"crypto/sha256"
	"math/big"
)

var (
	P, _  = new(big.Int).SetString("FFFFFFFFFFFFFFFFFFFFFFFFFFFFFFFFFFFFFFFFFFFFFFFFFFFFFFFEFFFFFC2F", 16)
	N, _  = new(big.Int).SetString("FFFFFFFFFFFFFFFFFFFFFFFFFFFFFFFEBAAEDCE6AF48A03BBFD25E8CD0364141", 16)
	Gx, _ = new(big.Int).SetString("79BE667EF9DCBBAC55A06295CE870B07029BFCDB2DCE28D959F2815B16F81798", 16)
	Gy, _ = new(big.Int).SetString("483ADA7726A3C4655DA4FBFC0E1108A8FD17B448A68554199C47D08FFB10D4B8", 16)
	// HalfN = floor(N/2): a signature is "low-s" iff 1 <= s <= HalfN.
	HalfN = new(big.Int).Rsh(N, 1)
	one   = big.NewInt(1)
	seven = big.NewInt(7)
	// (P+1)/4, exponent of the square root mod P (P = 3 mod 4)
	sqrtExp = new(big.Int).Rsh(new(big.Int).Add(P, one), 2)
)

// Point is an affine point; Inf marks the point at infinity.
type Point struct {
	X, Y *big.Int
	Inf  bool
}

type jac struct{ x, y, z *big.Int } // z == 0 <=> infinity

func modP(v *big.Int) *big.Int { return v.Mod(v, P) }

func mul(a, b *big.Int) *big.Int { return modP(new(big.Int).Mul(a, b)) }
func sub(a, b *big.Int) *big.Int { return modP(new(big.Int).Sub(a, b)) }
func add(a, b *big.Int) *big.Int { return modP(new(big.Int).Add(a, b)) }

func toJac(p Point) jac {
	if p.Inf {
		return jac{big.NewInt(1), big.NewInt(1), big.NewInt(0)}
	}
	return jac{new(big.Int).Set(p.X), new(big.Int).Set(p.Y), big.NewInt(1)}
}

func (j jac) affine() Point {
	if j.z.Sign() == 0 {
		return Point{Inf: true}
	}
	zi := new(big.Int).ModInverse(j.z, P)
	zi2 := mul(zi, zi)
	return Point{X: mul(j.x, zi2), Y: mul(j.y, mul(zi2, zi))}
}

func double(a jac) jac {
	if a.z.Sign() == 0 || a.y.Sign() == 0 {
		return jac{big.NewInt(1), big.NewInt(1), big.NewInt(0)}
	}
	y2 := mul(a.y, a.y)
	s := mul(big.NewInt(4), mul(a.x, y2))
	m := mul(big.NewInt(3), mul(a.x, a.x))
	x3 := sub(mul(m, m), add(s, s))
	y3 := sub(mul(m, sub(s, x3)), mul(big.NewInt(8), mul(y2, y2)))
	z3 := mul(big.NewInt(2), mul(a.y, a.z))
	return jac{x3, y3, z3}
}

func addJ(a, b jac) jac {
	if a.z.Sign() == 0 {
		return b
	}
	if b.z.Sign() == 0 {
		return a
	}
	z1z1 := mul(a.z, a.z)
	z2z2 := mul(b.z, b.z)
	u1 := mul(a.x, z2z2)
	u2 := mul(b.x, z1z1)
	s1 := mul(a.y, mul(z2z2, b.z))
	s2 := mul(b.y, mul(z1z1, a.z))
	if u1.Cmp(u2) == 0 {
		if s1.Cmp(s2) != 0 {
			return jac{big.NewInt(1), big.NewInt(1), big.NewInt(0)}
		}
		return double(a)
	}
	h := sub(u2, u1)
	r := sub(s2, s1)
	h2 := mul(h, h)
	h3 := mul(h2, h)
	u1h2 := mul(u1, h2)
	x3 := sub(sub(mul(r, r), h3), add(u1h2, u1h2))
	y3 := sub(mul(r, sub(u1h2, x3)), mul(s1, h3))
	z3 := mul(h, mul(a.z, b.z))
	return jac{x3, y3, z3}
}

func mulJ(p Point, k *big.Int) jac {
	k = new(big.Int).Mod(k, N)
	acc := jac{big.NewInt(1), big.NewInt(1), big.NewInt(0)}
	base := toJac(p)
	for i := k.BitLen() - 1; i >= 0; i-- {
		acc = double(acc)
		if k.Bit(i) == 1 {
			acc = addJ(acc, base)
		}
	}
	return acc
}

// G is the generator.
func G() Point { return Point{X: new(big.Int).Set(Gx), Y: new(big.Int).Set(Gy)} }

// Mul returns k*p (k taken mod N).
func Mul(p Point, k *big.Int) Point { return mulJ(p, k).affine() }

// MulAdd returns a*p + b*q.
func MulAdd(p Point, a *big.Int, q Point, b *big.Int) Point {
	return addJ(mulJ(p, a), mulJ(q, b)).affine()
}

// LiftX returns the curve point with the given x and y parity, ok=false if x is not the abscissa of a point.
func LiftX(x *big.Int, odd bool) (Point, bool) {
	if x.Sign() < 0 || x.Cmp(P) >= 0 {
		return Point{}, false
	}
	rhs := add(mul(x, mul(x, x)), seven)
	y := new(big.Int).Exp(rhs, sqrtExp, P)
	if mul(y, y).Cmp(rhs) != 0 {
		return Point{}, false
	}
	if (y.Bit(0) == 1) != odd {
		y = sub(new(big.Int), y)
	}
	return Point{X: new(big.Int).Set(x), Y: y}, true
}

// OnCurve reports whether p satisfies y^2 = x^3 + 7.
func OnCurve(p Point) bool {
	if p.Inf {
		return false
	}
	return mul(p.Y, p.Y).Cmp(add(mul(p.X, mul(p.X, p.X)), seven)) == 0
}

// Compress is the 33-byte SEC encoding.
func Compress(p Point) []byte {
	out := make([]byte, 33)
	out[0] = 2 + byte(p.Y.Bit(0))
	p.X.FillBytes(out[1:])
	return out
}

// PubKey returns d*G.
func PubKey(d *big.Int) Point { return Mul(G(), d) }

// Sig is a recoverable ECDSA signature in the 65-byte layout r(32) || s(32) || recid.
type Sig struct {
	R, S  *big.Int
	Recid int
}

func (s Sig) Bytes() [65]byte {
	var b [65]byte
	s.R.FillBytes(b[0:32])
	s.S.FillBytes(b[32:64])
	b[64] = byte(s.Recid)
	return b
}

// ParseSig splits the 65 bytes; no range checks.
func ParseSig(b [65]byte) Sig {
	return Sig{R: new(big.Int).SetBytes(b[0:32]), S: new(big.Int).SetBytes(b[32:64]), Recid: int(b[64])}
}

// SignRaw is textbook ECDSA with the given nonce: r = x(kG) mod N, s = k^-1 (z + r d) mod N, no s normalisation.
// recid bit0 = parity of y(kG), bit1 = x(kG) >= N.  ok=false when r or s is zero.
func SignRaw(d, z, k *big.Int) (Sig, bool) {
	R := Mul(G(), k)
	if R.Inf {
		return Sig{}, false
	}
	recid := int(R.Y.Bit(0))
	r := new(big.Int).Set(R.X)
	if r.Cmp(N) >= 0 {
		recid |= 2
		r.Sub(r, N)
	}
	if r.Sign() == 0 {
		return Sig{}, false
	}
	ki := new(big.Int).ModInverse(new(big.Int).Mod(k, N), N)
	s := new(big.Int).Mul(r, d)
	s.Add(s, z)
	s.Mul(s, ki)
	s.Mod(s, N)
	if s.Sign() == 0 {
		return Sig{}, false
	}
	return Sig{R: r, S: s, Recid: recid}, true
}

// Normalize returns the low-s form (s -> N-s and recid^1 when s > HalfN).
func Normalize(sig Sig) Sig {
	if sig.S.Cmp(HalfN) > 0 {
		return Sig{R: new(big.Int).Set(sig.R), S: new(big.Int).Sub(N, sig.S), Recid: sig.Recid ^ 1}
	}
	return sig
}

// Sign = Normalize(SignRaw).
func Sign(d, z, k *big.Int) (Sig, bool) {
	s, ok := SignRaw(d, z, k)
	if !ok {
		return s, false
	}
	return Normalize(s), true
}

// Nonce derives a deterministic nonce in [1, N-1] from the key, the message and a counter.
func Nonce(d, z *big.Int, ctr int) *big.Int {
	var buf [32]byte
	h := sha256.New()
	h.Write([]byte("verif-txn-nonce"))
	d.FillBytes(buf[:])
	h.Write(buf[:])
	new(big.Int).Mod(z, new(big.Int).Lsh(one, 256)).FillBytes(buf[:])
	h.Write(buf[:])
	h.Write([]byte{byte(ctr), byte(ctr >> 8)})
	k := new(big.Int).SetBytes(h.Sum(nil))
	k.Mod(k, new(big.Int).Sub(N, one))
	return k.Add(k, one)
}

// Recover is textbook public-key recovery for a *mathematically* valid signature: 1 <= r,s < N, recid in 0..3,
// x = r + (recid&2 ? N : 0) < P is the abscissa of a point R with parity recid&1, Q = r^-1 (s R - z G) != infinity.
// It applies NO malleability rule (see Strict).
func Recover(sig Sig, z *big.Int) (Point, bool) {
	if sig.R.Sign() <= 0 || sig.R.Cmp(N) >= 0 || sig.S.Sign() <= 0 || sig.S.Cmp(N) >= 0 {
		return Point{}, false
	}
	if sig.Recid < 0 || sig.Recid > 3 {
		return Point{}, false
	}
	x := new(big.Int).Set(sig.R)
	if sig.Recid&2 != 0 {
		x.Add(x, N)
		if x.Cmp(P) >= 0 {
			return Point{}, false
		}
	}
	R, ok := LiftX(x, sig.Recid&1 == 1)
	if !ok {
		return Point{}, false
	}
	ri := new(big.Int).ModInverse(sig.R, N)
	u1 := new(big.Int).Mul(ri, new(big.Int).Mod(z, N))
	u1.Neg(u1)
	u1.Mod(u1, N)
	u2 := new(big.Int).Mul(ri, sig.S)
	u2.Mod(u2, N)
	Q := MulAdd(G(), u1, R, u2)
	if Q.Inf {
		return Point{}, false
	}
	return Q, true
}

// Verify is textbook ECDSA verification (no recovery id, no malleability rule).
func Verify(Q Point, sig Sig, z *big.Int) bool {
	if sig.R.Sign() <= 0 || sig.R.Cmp(N) >= 0 || sig.S.Sign() <= 0 || sig.S.Cmp(N) >= 0 {
		return false
	}
	si := new(big.Int).ModInverse(sig.S, N)
	u1 := new(big.Int).Mul(si, new(big.Int).Mod(z, N))
	u1.Mod(u1, N)
	u2 := new(big.Int).Mul(si, sig.R)
	u2.Mod(u2, N)
	X := MulAdd(G(), u1, Q, u2)
	if X.Inf {
		return false
	}
	return new(big.Int).Mod(X.X, N).Cmp(sig.R) == 0
}

// LowS: 1 <= s <= floor(N/2).
func LowS(s *big.Int) bool { return s.Sign() > 0 && s.Cmp(HalfN) <= 0 }

// HighBitClear: s < 2^255 (the rule quoted by the documentation of the code base: "s high bit not set").
func HighBitClear(s *big.Int) bool { return s.BitLen() <= 255 }
